//! Run the real `Tracer` (Builder -> Channel<SimSocket> -> Strategy -> State) over a world.

use super::spec::{InjKind, TraceCfg, WorldSpec};
use super::world::{self, Event, PublishedRound, SendRec, SimSocket, World, ABORT_MARKER};
use crate::engine::catch;
use crate::vclock;

pub struct RunLog {
    pub cfg: TraceCfg,
    pub spec: WorldSpec,
    /// `Builder::build` rejected the configuration
    pub build_error: Option<String>,
    /// result of the run (error rendered as text)
    pub result: Option<Result<(), String>>,
    /// the tracer panicked
    pub panic: Option<String>,
    /// deterministic step / virtual-time cap hit
    pub aborted: Option<String>,
    pub sends: Vec<SendRec>,
    pub events: Vec<Event>,
    pub rounds: Vec<PublishedRound>,
    pub snapshot: Option<trippy_core::State>,
    pub start_ns: u64,
    pub end_ns: u64,
    pub injected: Vec<(usize, InjKind, bool)>,
    pub socket_calls: u64,
    /// what the public State accessors returned right after each publish
    pub tables: Vec<Result<TableSummary, String>>,
    pub captured: Vec<super::spec::RawInj>,
}

/// A digest of `State` taken through its public accessors after a round was applied.
#[derive(Clone, Debug, PartialEq, Eq)]
pub struct TableSummary {
    /// ttl() of every entry of hops() for the default flow
    pub hop_ttls: Vec<u8>,
    pub target_hop_ttl: u8,
    /// ttls for which is_target() holds among hops()
    pub is_target_ttls: Vec<u8>,
    /// ttls for which is_in_round() holds among hops()
    pub in_round_ttls: Vec<u8>,
    pub round_count: usize,
    pub round: Option<usize>,
    pub flow_ids: Vec<u64>,
    pub round_flow_id: u64,
    /// per registered flow: (id, hop ttls, target hop ttl, round count)
    pub flows: Vec<(u64, Vec<u8>, u8, usize)>,
    /// (ttl, last_nat_status as 0 = not applicable, 1 = not detected, 2 = detected) of hops()
    pub nat: Vec<(u8, u8)>,
}

pub fn summarize(state: &trippy_core::State) -> TableSummary {
    let d = trippy_core::State::default_flow_id();
    let hops = state.hops();
    let mut flows = vec![];
    for (_, id) in state.flows() {
        let h = state.hops_for_flow(*id);
        let _ = h.iter().map(|x| (state.is_target(x, *id), state.is_in_round(x, *id))).count();
        flows.push((
            id.0,
            h.iter().map(trippy_core::Hop::ttl).collect(),
            state.target_hop(*id).ttl(),
            state.round_count(*id),
        ));
        let _ = state.round(*id);
    }
    TableSummary {
        hop_ttls: hops.iter().map(trippy_core::Hop::ttl).collect(),
        target_hop_ttl: state.target_hop(d).ttl(),
        is_target_ttls: hops.iter().filter(|h| state.is_target(h, d)).map(trippy_core::Hop::ttl).collect(),
        in_round_ttls: hops.iter().filter(|h| state.is_in_round(h, d)).map(trippy_core::Hop::ttl).collect(),
        round_count: state.round_count(d),
        round: state.round(d),
        flow_ids: state.flows().iter().map(|(_, id)| id.0).collect(),
        round_flow_id: state.round_flow_id().0,
        flows,
        nat: hops
            .iter()
            .map(|h| {
                (
                    h.ttl(),
                    match h.last_nat_status() {
                        trippy_core::NatStatus::NotApplicable => 0,
                        trippy_core::NatStatus::NotDetected => 1,
                        trippy_core::NatStatus::Detected => 2,
                    },
                )
            })
            .collect(),
    }
}

pub const START_NS: u64 = vclock::BASE_NS + 1_000_000_000;

pub fn run_trace(cfg: &TraceCfg, spec: &WorldSpec) -> RunLog {
    run_trace_with(cfg, spec, |_| {})
}

/// As `run_trace`, with a hook that can adjust the world (caps, spin) before the run.
pub fn run_trace_with(cfg: &TraceCfg, spec: &WorldSpec, tweak: impl FnOnce(&mut World)) -> RunLog {
    let mut log = RunLog {
        cfg: cfg.clone(),
        spec: spec.clone(),
        build_error: None,
        result: None,
        panic: None,
        aborted: None,
        sends: vec![],
        events: vec![],
        rounds: vec![],
        snapshot: None,
        start_ns: START_NS,
        end_ns: START_NS,
        injected: vec![],
        socket_calls: 0,
        tables: vec![],
        captured: vec![],
    };
    let tracer = match cfg.build() {
        Ok(t) => t,
        Err(e) => {
            log.build_error = Some(e);
            return log;
        }
    };
    run_on(tracer, log, cfg, spec, tweak, |_| {})
}

/// Run a pre-built tracer (shared with other threads) on the calling thread; `on_publish` is
/// called after the tracer's own handler has applied the round.
pub fn run_shared(
    tracer: trippy_core::Tracer,
    cfg: &TraceCfg,
    spec: &WorldSpec,
    on_publish: impl Fn(&trippy_core::Round<'_>),
) -> RunLog {
    let log = RunLog {
        cfg: cfg.clone(),
        spec: spec.clone(),
        build_error: None,
        result: None,
        panic: None,
        aborted: None,
        sends: vec![],
        events: vec![],
        rounds: vec![],
        snapshot: None,
        start_ns: START_NS,
        end_ns: START_NS,
        injected: vec![],
        socket_calls: 0,
        tables: vec![],
        captured: vec![],
    };
    run_on(tracer, log, cfg, spec, |_| {}, on_publish)
}

fn run_on(
    tracer: trippy_core::Tracer,
    mut log: RunLog,
    cfg: &TraceCfg,
    spec: &WorldSpec,
    tweak: impl FnOnce(&mut World),
    on_publish: impl Fn(&trippy_core::Round<'_>),
) -> RunLog {
    vclock::enable(START_NS);
    let mut w = World::new(cfg.clone(), spec.clone());
    tweak(&mut w);
    world::install(w);
    let src = cfg.src_addr();
    let tables = std::cell::RefCell::new(vec![]);
    let res = catch(|| {
        tracer.verif_run_with_socket::<SimSocket, _>(src, |round| {
            world::with(|w| w.on_publish(round));
            // the tracer's own handler has already applied the round to its state
            let t = catch(|| summarize(&tracer.snapshot()));
            tables.borrow_mut().push(t);
            on_publish(round);
        })
    });
    log.tables = tables.into_inner();
    log.end_ns = vclock::now_ns();
    let w = world::take().expect("world");
    match res {
        Ok(r) => log.result = Some(r.map_err(|e| e.to_string())),
        Err(p) => {
            if p.contains(ABORT_MARKER) || w.aborted.is_some() {
                log.aborted = Some(w.aborted.clone().unwrap_or(p));
            } else {
                log.panic = Some(p);
            }
        }
    }
    log.snapshot = catch(|| tracer.snapshot()).ok();
    vclock::disable();
    log.sends = w.sends;
    log.events = w.events;
    log.rounds = w.rounds;
    log.injected = w.injected;
    log.captured = w.captured;
    log.socket_calls = w.calls;
    log
}

/// Print the ordered log of a run (debugging aid).
pub fn dump(log: &RunLog) {
    use super::world::wire_sequence;
    println!("result={:?} panic={:?} aborted={:?} build_error={:?}", log.result, log.panic, log.aborted, log.build_error);
    for ev in &log.events {
        match ev {
            Event::Send(i) => {
                let s = &log.sends[*i];
                println!(
                    "{:>12} SEND #{i} round={} ttl={:?} seq={:?} failed={:?} pos={} responded={}",
                    s.t_ns - log.start_ns,
                    s.round,
                    s.wire.as_ref().map(|w| w.ttl),
                    s.wire.as_ref().and_then(|w| wire_sequence(&log.cfg, w)),
                    s.failed,
                    s.responder_pos,
                    s.responded
                );
            }
            Event::Read { t_ns, meta } => println!(
                "{:>12} READ answers={:?} class={:?} from={} kind={:?} names_seq={:?}",
                t_ns - log.start_ns,
                meta.answers,
                meta.class,
                meta.from,
                meta.kind,
                meta.names_seq
            ),
            Event::TcpObserved { t_ns, send_idx, kind, .. } => {
                println!("{:>12} TCP answers={send_idx} kind={kind:?}", t_ns - log.start_ns);
            }
            Event::Publish(k) => {
                let r = &log.rounds[*k];
                println!(
                    "{:>12} PUBLISH round {k} largest_ttl={} reason={:?} probes=[{}]",
                    r.t_ns - log.start_ns,
                    r.largest_ttl,
                    r.reason,
                    r.probes.iter().map(crate::oracle::status_short).collect::<Vec<_>>().join(" ")
                );
            }
            Event::PollTimeout { .. } => {}
            Event::Fault { t_ns, stage, errno } => println!("{:>12} FAULT {stage:?} errno={errno}", t_ns - log.start_ns),
        }
    }
}
