//! proptest strategies for tracer configurations and worlds.

use super::spec::*;
use crate::wire::{ExtObject, ExtStructure, ExtStyle, MplsMember};
use proptest::collection::vec;
use proptest::prelude::*;
use proptest::strategy::BoxedStrategy;

/// Knobs that property checks turn.
#[derive(Clone, Debug)]
pub struct GenOpts {
    pub max_hops: usize,
    /// probability weight (out of 100) for very long paths (up to 260 hops)
    pub long_path_pct: u32,
    pub rounds: (u32, u32),
    pub injections: bool,
    pub faults: bool,
    pub nat: bool,
    pub ecmp: bool,
    pub exts: bool,
    pub firewall: bool,
    /// generate only configurations trippy documents as supported
    pub supported_only: bool,
    /// restrict protocols
    pub protocols: Vec<Proto>,
    pub costs: bool,
    pub loss: bool,
    pub dups: bool,
    /// allow hop delays beyond one round duration (late responses)
    pub late: bool,
    pub bad_sizes: bool,
    /// force first_ttl < max_inflight (avoid the region where nothing is ever sent)
    pub sending_only: bool,
    /// maximum number of injections per world
    pub inj_max: usize,
}

impl Default for GenOpts {
    fn default() -> Self {
        Self {
            max_hops: 24,
            long_path_pct: 3,
            rounds: (1, 8),
            injections: false,
            faults: false,
            nat: false,
            ecmp: true,
            exts: true,
            firewall: true,
            supported_only: false,
            protocols: vec![Proto::Icmp, Proto::Udp, Proto::Tcp],
            costs: true,
            loss: true,
            dups: true,
            late: true,
            bad_sizes: false,
            sending_only: false,
            inj_max: 8,
        }
    }
}

pub fn boundary_u16(lo: u16, hi: u16) -> BoxedStrategy<u16> {
    prop_oneof![
        3 => lo..=hi,
        1 => Just(lo),
        1 => Just(hi),
        1 => Just(lo.saturating_add(1).min(hi)),
        1 => Just(hi.saturating_sub(1).max(lo)),
    ]
    .boxed()
}

pub fn initial_sequence() -> BoxedStrategy<u16> {
    prop_oneof![
        4 => Just(33434u16),
        3 => 0u16..=64511,
        1 => Just(0u16),
        1 => Just(1u16),
        2 => 64000u16..=64511,
        1 => Just(64511u16),
        1 => Just(64257u16),
        1 => Just(64258u16),
    ]
    .boxed()
}

fn proto_strat(opts: &GenOpts) -> BoxedStrategy<Proto> {
    proptest::sample::select(opts.protocols.clone()).boxed()
}

/// (protocol, strategy, ports, privileged) cells the builder accepts and that can run.
fn cell_strat(opts: &GenOpts) -> BoxedStrategy<(Proto, Strat, Ports, bool)> {
    let supported_only = opts.supported_only;
    (
        proto_strat(opts),
        0u8..10,
        0u8..3,
        1024u16..65000,
        1024u16..65000,
        prop::bool::weighted(0.7),
    )
        .prop_map(move |(p, s, d, a, b, privileged)| match p {
            Proto::Icmp => {
                // strategy / ports are ignored for ICMP; the builder accepts anything
                let strat = if s < 8 {
                    Strat::Classic
                } else if s == 8 {
                    Strat::Paris
                } else {
                    Strat::Dublin
                };
                let ports = if d < 2 { Ports::None } else { Ports::FixedSrc(a) };
                (p, strat, ports, privileged)
            }
            Proto::Udp => {
                let strat = match s {
                    0..=3 => Strat::Classic,
                    4..=6 => Strat::Paris,
                    _ => Strat::Dublin,
                };
                let ports = match (strat, d) {
                    (_, 0) => Ports::FixedSrc(a),
                    (_, 1) => Ports::FixedDest(b),
                    (Strat::Classic, _) => Ports::FixedDest(b),
                    (_, _) => Ports::FixedBoth(a, b),
                };
                let privileged = if supported_only && strat != Strat::Classic {
                    true
                } else {
                    privileged
                };
                (p, strat, ports, privileged)
            }
            Proto::Tcp => {
                let strat = if s < 8 {
                    Strat::Classic
                } else if s == 8 {
                    Strat::Paris
                } else {
                    Strat::Dublin
                };
                let ports = if d == 0 { Ports::FixedSrc(a) } else { Ports::FixedDest(b) };
                (p, strat, ports, privileged)
            }
        })
        .boxed()
}

/// Time scale: every duration of a case is a small multiple of one unit, so that thresholds
/// and arrivals collide often.
fn unit_strat() -> BoxedStrategy<u64> {
    prop_oneof![
        Just(1_000u64),
        Just(10_000u64),
        Just(100_000u64),
        Just(1_000_000u64),
        Just(10_000_000u64),
        1u64..2_000_000,
    ]
    .boxed()
}

pub fn cfg_strat(opts: &GenOpts) -> BoxedStrategy<(TraceCfg, u64)> {
    let o = opts.clone();
    (
        (
            any::<bool>(),
            cell_strat(opts),
            any::<bool>(),
            prop_oneof![6 => Just(1u8), 3 => 1u8..=6, 1 => 1u8..=254],
            prop_oneof![8 => 0u8..=30, 1 => 0u8..=253],
            prop_oneof![3 => 1u8..=30, 1 => 1u8..=255, 2 => Just(24u8)],
        ),
        (
            prop_oneof![4 => Just(84u16), 4 => 28u16..=1024, 1 => Just(1024u16), 1 => Just(28u16), 1 => Just(48u16), 1=> 0u16..=1100],
            any::<u8>(),
            prop_oneof![3 => Just(0u8), 1 => any::<u8>()],
            initial_sequence(),
            prop_oneof![6 => 1u16..=65535, 1 => Just(0u16)],
        ),
        (
            unit_strat(),
            0u64..=3,   // read timeout units
            0u64..=40,  // min round units
            0u64..=60,  // extra for max round
            0u64..=20,  // grace units
            1u64..=60,  // tcp connect timeout units
        ),
        (o.rounds.0..=o.rounds.1, prop_oneof![2 => Just(256usize), 1 => 0usize..=12], prop_oneof![2 => Just(64usize), 1 => 1usize..=8]),
    )
        .prop_map(move |((v6, (protocol, strategy, ports, privileged), ext_enabled, first, span, inflight), (size, pattern, tos, init_seq, trace_id), (unit, rt, minr, extra, grace, tct), (rounds, max_samples, max_flows))| {
            let mut first_ttl = first;
            let max_ttl = (u16::from(first_ttl) + u16::from(span)).min(254) as u8;
            let mut max_inflight = inflight;
            if o.sending_only && first_ttl >= max_inflight {
                // keep the tracer in the region where it sends at all
                if max_inflight < 2 {
                    max_inflight = 2;
                }
                first_ttl = first_ttl.min(max_inflight - 1);
            }
            let max_ttl = max_ttl.max(first_ttl);
            let min_size: u16 = if v6 { 48 } else { 28 };
            let packet_size = if o.bad_sizes {
                size
            } else {
                size.clamp(min_size, 1024)
            };
            let cfg = TraceCfg {
                v6,
                protocol,
                strategy,
                ports,
                privileged,
                ext_enabled,
                first_ttl,
                max_ttl,
                max_inflight,
                packet_size,
                pattern,
                tos,
                min_round_ns: unit * minr,
                max_round_ns: unit * (minr + extra),
                grace_ns: unit * grace,
                read_timeout_ns: unit * rt,
                tcp_connect_timeout_ns: unit * tct,
                initial_sequence: init_seq,
                trace_id,
                max_rounds: rounds,
                max_samples,
                max_flows,
                target_idx: 0,
            };
            (cfg, unit)
        })
        .boxed()
}

pub fn mpls_member() -> BoxedStrategy<MplsMember> {
    (
        prop_oneof![3 => 0u32..=0xf_ffff, 1 => Just(0xf_ffffu32), 1 => Just(0u32)],
        0u8..=7,
        any::<u8>(),
    )
        .prop_map(|(label, exp, ttl)| MplsMember { label, exp, bos: 0, ttl })
        .boxed()
}

pub fn ext_object() -> BoxedStrategy<ExtObject> {
    prop_oneof![
        3 => (vec(mpls_member(), 1..=4), prop_oneof![4 => Just(0u8), 1 => Just(1u8), 1 => Just(2u8)], any::<u8>()).prop_map(|(mut ms, how, pick)| {
            // S bit marks the bottom of the stack (RFC 3032); also stacks that are delimited by
            // the object length only (no S bit) and stacks whose S bit comes early
            let n = ms.len();
            match how {
                0 => ms[n - 1].bos = 1,
                1 => {}
                _ => ms[usize::from(pick) % n].bos = 1,
            }
            ExtObject::Mpls(ms)
        }),
        2 => (2u8..=255, any::<u8>(), vec(any::<u8>(), 0..=4)).prop_map(|(class, ctype, words)| {
            let data: Vec<u8> = words.iter().flat_map(|w| [*w, w.wrapping_add(1), w.wrapping_mul(3), !*w]).collect();
            ExtObject::Other { class, ctype, data }
        }),
    ]
    .boxed()
}

pub fn ext_structure() -> BoxedStrategy<ExtStructure> {
    vec(ext_object(), 0..=4)
        .prop_map(|objects| ExtStructure { version: 2, objects })
        .boxed()
}

pub fn ext_spec() -> BoxedStrategy<ExtSpec> {
    (ext_structure(), prop_oneof![2 => Just(ExtStyle::Compliant), 2 => Just(ExtStyle::Legacy), 1 => Just(ExtStyle::ShortLength)])
        .prop_map(|(structure, style)| ExtSpec { structure, style })
        .boxed()
}

fn resp_mode(loss: bool) -> BoxedStrategy<RespMode> {
    if loss {
        prop_oneof![
            6 => Just(RespMode::Always),
            2 => Just(RespMode::Silent),
            2 => any::<u32>().prop_map(RespMode::LossMask),
            1 => (2u8..=5).prop_map(RespMode::EveryKth),
        ]
        .boxed()
    } else {
        Just(RespMode::Always).boxed()
    }
}

pub fn hop_strat(opts: &GenOpts, unit: u64, round_units: u64) -> BoxedStrategy<HopSpec> {
    let late = opts.late;
    let delay_units = if late {
        prop_oneof![8 => 0u64..=20, 2 => 0u64..=(round_units + 2), 1 => (round_units)..=(round_units * 2 + 2)].boxed()
    } else {
        (0u64..=20).boxed()
    };
    (
        (1u16..=40, resp_mode(opts.loss), delay_units, 0u64..=6, if opts.dups { prop_oneof![5 => Just(0u8), 1 => 1u8..=2].boxed() } else { Just(0u8).boxed() }, 0u64..=4),
        (
            prop_oneof![Just(Quote::Min), (0u16..=200).prop_map(Quote::Extra), Just(Quote::Full)],
            if opts.exts { prop_oneof![3 => Just(None), 1 => ext_spec().prop_map(Some)].boxed() } else { Just(None).boxed() },
            prop::bool::weighted(0.2),
            prop_oneof![6 => Just(None), 1 => any::<u8>().prop_map(Some)],
            prop_oneof![6 => Just(0u8), 1 => 1u8..=3],
            prop_oneof![3 => Just(1u8), 1 => Just(0u8), 1 => any::<u8>()],
        ),
    )
        .prop_map(move |((addr, mode, d, j, dups, gap), (quote, ext, set_len, tos_rewrite, opts_words, quoted_ttl))| HopSpec {
            addr,
            mode,
            delay_ns: d * unit + unit / 3,
            jitter_ns: j * unit / 2,
            dups,
            dup_gap_ns: gap * unit / 4 + 1,
            quote,
            ext,
            set_len,
            tos_rewrite,
            reply_ip_options: opts_words,
            quoted_ttl,
        })
        .boxed()
}

fn path_strat(opts: &GenOpts, unit: u64, round_units: u64) -> BoxedStrategy<PathSpec> {
    let max_hops = opts.max_hops;
    let long = opts.long_path_pct;
    let nhops = prop_oneof![
        (100 - long) => 0usize..=max_hops,
        long => 200usize..=260,
    ];
    let nat = opts.nat;
    let fw = opts.firewall;
    let o = opts.clone();
    nhops
        .prop_flat_map(move |n| {
            (
                vec(hop_strat(&o, unit, round_units), n),
                if fw { prop_oneof![12 => Just(None), 1 => (1u8..=30, prop_oneof![Just(13u8), Just(1u8), Just(10u8)]).prop_map(Some)].boxed() } else { Just(None).boxed() },
                if nat {
                    vec((1u8..=20, any::<bool>(), 1u16..=200, prop_oneof![Just(None), (1024u16..60000).prop_map(Some)], prop::bool::weighted(0.2)), 0..=3).boxed()
                } else {
                    Just(vec![]).boxed()
                },
            )
        })
        .prop_map(|(mut hops, firewall, nats)| {
            // distinct addresses along one path unless the generator asked for loops
            for (i, h) in hops.iter_mut().enumerate() {
                if i >= 40 {
                    h.addr = 100 + i as u16;
                }
            }
            PathSpec {
                hops,
                firewall,
                nats: nats
                    .into_iter()
                    .map(|(at, inclusive, new_src, new_sport, restore)| NatSpec { at, inclusive, new_src, new_sport, restore })
                    .collect(),
            }
        })
        .boxed()
}

fn inj_strat(unit: u64) -> BoxedStrategy<InjSpec> {
    let kind = prop_oneof![
        3 => (0u8..=6).prop_map(|back| InjKind::ExtraResponse { back }),
        2 => (0u8..=4, 1u16..=500).prop_map(|(back, id_delta)| InjKind::ForeignTraceId { back, id_delta }),
        1 => (0u8..=4).prop_map(|back| InjKind::OtherDest { back }),
        1 => (0u8..=4, 1u16..=600).prop_map(|(back, delta)| InjKind::OtherPort { back, delta }),
        1 => (0u8..=4).prop_map(|back| InjKind::OtherProto { back }),
        1 => (0u8..=4).prop_map(|back| InjKind::NoMagic { back }),
        4 => prop_oneof![3 => 0u16..=40, 1 => 0u16..=600].prop_map(|offset| InjKind::NeverSent { offset }),
        1 => (0u16..=600).prop_map(|offset| InjKind::BeforeRound { offset }),
        1 => (0u8..=4).prop_map(|back| InjKind::UnhandledType { back }),
    ];
    (prop_oneof![3 => 0u16..=40, 1 => 0u16..=400], 0u64..=30, kind)
        .prop_map(move |(after_send, d, kind)| InjSpec {
            after_send,
            delay_ns: d * unit / 2,
            kind,
        })
        .boxed()
}

pub fn world_strat(opts: &GenOpts, unit: u64, round_units: u64) -> BoxedStrategy<WorldSpec> {
    let o = opts.clone();
    let npaths = if opts.ecmp { prop_oneof![3 => Just(1usize), 1 => 2usize..=3].boxed() } else { Just(1usize).boxed() };
    (
        npaths.prop_flat_map({
            let o = o.clone();
            move |n| vec(path_strat(&o, unit, round_units), n)
        }),
        any::<u64>(),
        (hop_strat(opts, unit, round_units), prop_oneof![3 => Just(TargetKind::Normal), 1 => Just(TargetKind::Refuse)]),
        if opts.injections { vec(inj_strat(unit), 0..=opts.inj_max).boxed() } else { Just(vec![]).boxed() },
        if opts.costs { prop_oneof![3 => Just((0u64, 0u64)), 1 => (0u64..=3, 0u64..=3)].boxed() } else { Just((0u64, 0u64)).boxed() },
        any::<u64>(),
    )
        .prop_map(move |(paths, ecmp_salt, (mut tnode, kind), injections, (sc, rc), seed)| {
            // the target quotes in full far more often than routers do
            if tnode.reply_ip_options > 0 && seed % 2 == 0 {
                tnode.reply_ip_options = 0;
            }
            WorldSpec {
                paths,
                ecmp_salt,
                target: TargetSpec { node: tnode, kind },
                injections,
                faults: vec![],
                send_cost_ns: sc * unit / 8,
                recv_cost_ns: rc * unit / 8,
                seed,
                raw: vec![],
            }
        })
        .boxed()
}

/// A full case: configuration + world on a common time scale.
pub fn case_strat(opts: &GenOpts) -> BoxedStrategy<(TraceCfg, WorldSpec)> {
    let o = opts.clone();
    cfg_strat(opts)
        .prop_flat_map(move |(cfg, unit)| {
            let round_units = (cfg.max_round_ns / unit.max(1)).max(1);
            (Just(cfg), world_strat(&o, unit, round_units))
        })
        .prop_map(|(cfg, mut world)| {
            // A NAT rewrites the UDP checksum, which *is* the Paris sequence number: Paris
            // tracing through a checksum-rewriting device cannot work by design and is not
            // among the in-transit changes the properties quantify over.
            if cfg.strategy == Strat::Paris {
                for p in &mut world.paths {
                    p.nats.clear();
                }
            }
            (cfg, world)
        })
        .boxed()
}
