//! Generated, shrinkable, serialisable descriptions of a tracer configuration and of a
//! simulated network ("world").

use crate::wire::{ExtStructure, ExtStyle};
use serde::{Deserialize, Serialize};
use std::net::{IpAddr, Ipv4Addr, Ipv6Addr};
use std::time::Duration;
use trippy_core::{
    Builder, IcmpExtensionParseMode, MultipathStrategy, PortDirection, PrivilegeMode, Protocol,
    Tracer,
};

#[derive(Clone, Copy, Debug, PartialEq, Eq, Hash, Serialize, Deserialize)]
pub enum Proto {
    Icmp,
    Udp,
    Tcp,
}

#[derive(Clone, Copy, Debug, PartialEq, Eq, Hash, Serialize, Deserialize)]
pub enum Strat {
    Classic,
    Paris,
    Dublin,
}

#[derive(Clone, Copy, Debug, PartialEq, Eq, Hash, Serialize, Deserialize)]
pub enum Ports {
    None,
    FixedSrc(u16),
    FixedDest(u16),
    FixedBoth(u16, u16),
}

#[derive(Clone, Debug, PartialEq, Eq, Serialize, Deserialize)]
pub struct TraceCfg {
    pub v6: bool,
    pub protocol: Proto,
    pub strategy: Strat,
    pub ports: Ports,
    pub privileged: bool,
    pub ext_enabled: bool,
    pub first_ttl: u8,
    pub max_ttl: u8,
    pub max_inflight: u8,
    pub packet_size: u16,
    pub pattern: u8,
    pub tos: u8,
    pub min_round_ns: u64,
    pub max_round_ns: u64,
    pub grace_ns: u64,
    pub read_timeout_ns: u64,
    pub tcp_connect_timeout_ns: u64,
    pub initial_sequence: u16,
    pub trace_id: u16,
    pub max_rounds: u32,
    pub max_samples: usize,
    pub max_flows: usize,
    /// selects one of several target addresses (two-tracer scenarios)
    #[serde(default)]
    pub target_idx: u8,
}

impl Default for TraceCfg {
    fn default() -> Self {
        Self {
            v6: false,
            protocol: Proto::Icmp,
            strategy: Strat::Classic,
            ports: Ports::None,
            privileged: true,
            ext_enabled: false,
            first_ttl: 1,
            max_ttl: 64,
            max_inflight: 24,
            packet_size: 84,
            pattern: 0,
            tos: 0,
            min_round_ns: 1_000_000_000,
            max_round_ns: 1_000_000_000,
            grace_ns: 100_000_000,
            read_timeout_ns: 10_000_000,
            tcp_connect_timeout_ns: 1_000_000_000,
            initial_sequence: 33434,
            trace_id: 4242,
            max_rounds: 3,
            max_samples: 256,
            max_flows: 64,
            target_idx: 0,
        }
    }
}

pub fn host_addr(v6: bool, idx: u16) -> IpAddr {
    if v6 {
        IpAddr::V6(Ipv6Addr::new(0xfd00, 0, 0, 0, 0, 0, 1, idx))
    } else {
        IpAddr::V4(Ipv4Addr::new(10, 1, (idx >> 8) as u8, (idx & 0xff) as u8))
    }
}

impl TraceCfg {
    pub fn src_addr(&self) -> IpAddr {
        if self.v6 {
            IpAddr::V6(Ipv6Addr::new(0xfd00, 0, 0, 0, 0, 0, 0, 1))
        } else {
            IpAddr::V4(Ipv4Addr::new(10, 0, 0, 1))
        }
    }
    pub fn target_addr(&self) -> IpAddr {
        if self.v6 {
            IpAddr::V6(Ipv6Addr::new(0xfd00, 0, 0, 9, 0, 0, 0, 9 + u16::from(self.target_idx)))
        } else {
            IpAddr::V4(Ipv4Addr::new(10, 200, self.target_idx, 9))
        }
    }
    pub fn protocol(&self) -> Protocol {
        match self.protocol {
            Proto::Icmp => Protocol::Icmp,
            Proto::Udp => Protocol::Udp,
            Proto::Tcp => Protocol::Tcp,
        }
    }
    pub fn strategy(&self) -> MultipathStrategy {
        match self.strategy {
            Strat::Classic => MultipathStrategy::Classic,
            Strat::Paris => MultipathStrategy::Paris,
            Strat::Dublin => MultipathStrategy::Dublin,
        }
    }
    pub fn port_direction(&self) -> PortDirection {
        match self.ports {
            Ports::None => PortDirection::None,
            Ports::FixedSrc(s) => PortDirection::new_fixed_src(s),
            Ports::FixedDest(d) => PortDirection::new_fixed_dest(d),
            Ports::FixedBoth(s, d) => PortDirection::new_fixed_both(s, d),
        }
    }
    /// Builder chain (mirrors what a library user / `app.rs::start_tracer` does).
    pub fn builder(&self) -> Builder {
        Builder::new(self.target_addr())
            .privilege_mode(if self.privileged {
                PrivilegeMode::Privileged
            } else {
                PrivilegeMode::Unprivileged
            })
            .protocol(self.protocol())
            .multipath_strategy(self.strategy())
            .port_direction(self.port_direction())
            .icmp_extension_parse_mode(if self.ext_enabled {
                IcmpExtensionParseMode::Enabled
            } else {
                IcmpExtensionParseMode::Disabled
            })
            .first_ttl(self.first_ttl)
            .max_ttl(self.max_ttl)
            .max_inflight(self.max_inflight)
            .packet_size(self.packet_size)
            .payload_pattern(self.pattern)
            .tos(self.tos)
            .min_round_duration(Duration::from_nanos(self.min_round_ns))
            .max_round_duration(Duration::from_nanos(self.max_round_ns))
            .grace_duration(Duration::from_nanos(self.grace_ns))
            .read_timeout(Duration::from_nanos(self.read_timeout_ns))
            .tcp_connect_timeout(Duration::from_nanos(self.tcp_connect_timeout_ns))
            .initial_sequence(self.initial_sequence)
            .trace_identifier(self.trace_id)
            .max_rounds(Some(self.max_rounds as usize))
            .max_samples(self.max_samples)
            .max_flows(self.max_flows)
            .drop_privileges(false)
    }
    pub fn build(&self) -> Result<Tracer, String> {
        self.builder().build().map_err(|e| e.to_string())
    }

    /// Configurations trippy documents as unsupported (excluded from C02's "supported" domain,
    /// still run for crash-freedom).
    pub fn is_supported(&self) -> bool {
        // Paris / Dublin need control over the UDP checksum / IP id: privileged (raw) mode only.
        if self.protocol == Proto::Udp && self.strategy != Strat::Classic && !self.privileged {
            return false;
        }
        true
    }

    /// Human-readable cell label used in class histograms.
    pub fn cell(&self) -> String {
        format!(
            "{:?}/{}/{:?}/{}/{}",
            self.protocol,
            if self.v6 { "v6" } else { "v4" },
            self.strategy,
            match self.ports {
                Ports::None => "none",
                Ports::FixedSrc(_) => "src",
                Ports::FixedDest(_) => "dest",
                Ports::FixedBoth(_, _) => "both",
            },
            if self.privileged { "priv" } else { "unpriv" }
        )
    }
}

// ------------------------------------------------------------------------------------------

#[derive(Clone, Copy, Debug, PartialEq, Eq, Hash, Serialize, Deserialize)]
pub enum RespMode {
    Always,
    Silent,
    /// drop the n-th probe seen by this node when bit (n % 32) of the mask is set
    LossMask(u32),
    /// rate limited: answer only every k-th probe (k >= 2)
    EveryKth(u8),
}

#[derive(Clone, Copy, Debug, PartialEq, Eq, Hash, Serialize, Deserialize)]
pub enum Quote {
    /// IPv4: IP header + 8 octets (RFC 792 minimum).  IPv6: whole datagram.
    Min,
    /// IP header + 8 + n octets (bounded by the datagram)
    Extra(u16),
    /// the whole datagram (RFC 1812 / RFC 4443: as much as fits)
    Full,
}

#[derive(Clone, Debug, PartialEq, Eq, Hash, Serialize, Deserialize)]
pub struct ExtSpec {
    pub structure: ExtStructure,
    pub style: ExtStyle,
}

#[derive(Clone, Debug, PartialEq, Eq, Serialize, Deserialize)]
pub struct HopSpec {
    /// index into the host address pool
    pub addr: u16,
    pub mode: RespMode,
    pub delay_ns: u64,
    pub jitter_ns: u64,
    /// extra copies of each response
    pub dups: u8,
    pub dup_gap_ns: u64,
    pub quote: Quote,
    pub ext: Option<ExtSpec>,
    /// fill the RFC 4884 length attribute even without an extension
    pub set_len: bool,
    /// remark TOS / traffic class of forwarded datagrams (seen in quotations at and beyond)
    pub tos_rewrite: Option<u8>,
    /// IPv4 options words (NOPs) in the *outer* header of this node's replies
    pub reply_ip_options: u8,
    /// TTL value left in the quoted header (routers quote 1 or 0)
    pub quoted_ttl: u8,
}

impl Default for HopSpec {
    fn default() -> Self {
        Self {
            addr: 1,
            mode: RespMode::Always,
            delay_ns: 1_000_000,
            jitter_ns: 0,
            dups: 0,
            dup_gap_ns: 1000,
            quote: Quote::Min,
            ext: None,
            set_len: false,
            tos_rewrite: None,
            reply_ip_options: 0,
            quoted_ttl: 1,
        }
    }
}

#[derive(Clone, Copy, Debug, PartialEq, Eq, Hash, Serialize, Deserialize)]
pub enum TargetKind {
    /// ICMP: echo reply; UDP: port unreachable; TCP: SYN-ACK
    Normal,
    /// TCP: RST (connection refused); otherwise as Normal
    Refuse,
}

#[derive(Clone, Debug, PartialEq, Eq, Serialize, Deserialize)]
pub struct NatSpec {
    /// position of the device (1-based hop)
    pub at: u8,
    /// does the device's own quotation already show the rewritten datagram?
    pub inclusive: bool,
    /// translated source address index / port
    pub new_src: u16,
    pub new_sport: Option<u16>,
    /// the device translates back to the original source (second half of a twice-NAT pair)
    #[serde(default)]
    pub restore: bool,
}

#[derive(Clone, Debug, PartialEq, Eq, Serialize, Deserialize)]
pub struct PathSpec {
    /// routers at ttl 1..=hops.len(); the target is at distance hops.len() + 1
    pub hops: Vec<HopSpec>,
    /// firewall: probes with ttl > k are answered by router k with Destination Unreachable(code)
    pub firewall: Option<(u8, u8)>,
    pub nats: Vec<NatSpec>,
}

#[derive(Clone, Debug, PartialEq, Eq, Serialize, Deserialize)]
pub struct TargetSpec {
    pub node: HopSpec,
    pub kind: TargetKind,
}

#[derive(Clone, Copy, Debug, PartialEq, Eq, Hash, Serialize, Deserialize)]
pub enum InjKind {
    /// a response (as the responsible node would build it) to the probe `back` sends earlier,
    /// whether or not that node answers by itself: an additional genuine response
    ExtraResponse { back: u8 },
    /// genuine-looking response whose ICMP identifier is another tracer's (non-zero, not ours)
    ForeignTraceId { back: u8, id_delta: u16 },
    /// quotation naming another destination address
    OtherDest { back: u8 },
    /// quotation naming another fixed port
    OtherPort { back: u8, delta: u16 },
    /// quotation of another protocol
    OtherProto { back: u8 },
    /// Dublin/IPv6 quotation without the magic prefix
    NoMagic { back: u8 },
    /// quotation whose sequence is (current probe's sequence + offset): never sent so far
    NeverSent { offset: u16 },
    /// quotation whose sequence lies before the round (sequence - offset - 1 of the oldest probe in round)
    BeforeRound { offset: u16 },
    /// echo reply / error whose type the tracer does not handle
    UnhandledType { back: u8 },
}

#[derive(Clone, Debug, PartialEq, Eq, Serialize, Deserialize)]
pub struct InjSpec {
    /// fire when the n-th probe (global index) is put on the wire
    pub after_send: u16,
    pub delay_ns: u64,
    pub kind: InjKind,
}

#[derive(Clone, Copy, Debug, PartialEq, Eq, Hash, Serialize, Deserialize)]
pub enum Stage {
    NewSocket,
    Bind,
    SetOpt,
    Connect,
    SendTo,
    Poll,
    Read,
    TakeError,
}

#[derive(Clone, Debug, PartialEq, Eq, Serialize, Deserialize)]
pub struct FaultSpec {
    pub stage: Stage,
    /// the n-th call (0-based) of that stage made after the channel is connected
    pub nth: u16,
    pub errno: i32,
    /// also fail the following `repeat` calls of that stage
    #[serde(default)]
    pub repeat: u16,
}

#[derive(Clone, Debug, PartialEq, Eq, Serialize, Deserialize)]
pub struct WorldSpec {
    pub paths: Vec<PathSpec>,
    pub ecmp_salt: u64,
    pub target: TargetSpec,
    pub injections: Vec<InjSpec>,
    pub faults: Vec<FaultSpec>,
    /// virtual time charged to each send / read call
    pub send_cost_ns: u64,
    pub recv_cost_ns: u64,
    pub seed: u64,
    /// raw packets (another tracer's traffic seen on the shared ICMP socket) delivered at fixed
    /// offsets from the start of the run
    #[serde(default)]
    pub raw: Vec<RawInj>,
}

#[derive(Clone, Debug, PartialEq, Eq, Serialize, Deserialize)]
pub struct RawInj {
    pub at_ns: u64,
    pub bytes: Vec<u8>,
    pub from: IpAddr,
    pub label: String,
}

impl WorldSpec {
    pub fn simple(n_hops: usize) -> Self {
        Self {
            paths: vec![PathSpec {
                hops: (0..n_hops)
                    .map(|i| HopSpec {
                        addr: (i + 1) as u16,
                        delay_ns: 1_000_000 * (i as u64 + 1),
                        ..HopSpec::default()
                    })
                    .collect(),
                firewall: None,
                nats: vec![],
            }],
            ecmp_salt: 0,
            target: TargetSpec {
                node: HopSpec {
                    addr: 0,
                    delay_ns: 1_000_000 * (n_hops as u64 + 1),
                    quote: Quote::Full,
                    ..HopSpec::default()
                },
                kind: TargetKind::Normal,
            },
            injections: vec![],
            faults: vec![],
            send_cost_ns: 0,
            recv_cost_ns: 0,
            seed: 1,
            raw: vec![],
        }
    }
}
