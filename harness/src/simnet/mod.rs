//! simnet: a deterministic discrete-event network simulator behind trippy's `Socket` trait.

pub mod gen;
pub mod run;
pub mod spec;
pub mod world;

pub use run::{run_shared, run_trace, run_trace_with, RunLog};
pub use spec::*;
pub use world::{Event, OnWire, PktClass, PktMeta, PublishedRound, RespKind, SendRec, SimSocket, World};
