//! The simulated network and the `Socket` implementation trippy's real `Channel` runs over.

use super::spec::*;
use crate::engine::mix;
use crate::vclock;
use crate::wire::{self, ExtStructure, L4};
use serde::{Deserialize, Serialize};
use std::cell::RefCell;
use std::io;
use std::net::{IpAddr, Ipv4Addr, Ipv6Addr, SocketAddr};
use std::time::Duration;
use trippy_core::verif::{IoError, IoOperation, IoResult, Socket, SocketError};

/// Marker panic payload used to abort a run that exceeded its deterministic step/time cap.
pub const ABORT_MARKER: &str = "SIMNET-ABORT";

#[derive(Clone, Debug, PartialEq, Eq, Serialize, Deserialize)]
pub enum RespKind {
    TimeExceeded(u8),
    Unreachable(u8),
    EchoReply(u8),
    TcpConnected,
    TcpRefused,
}

#[derive(Clone, Debug, PartialEq, Eq, Serialize, Deserialize)]
pub enum PktClass {
    /// built by the responsible node for a probe this tracer sent
    Genuine,
    /// adversarial / foreign packet that answers no probe of this tracer
    Junk(String),
}

#[derive(Clone, Debug, Serialize, Deserialize)]
pub struct PktMeta {
    pub class: PktClass,
    /// index of the send this packet answers (Genuine only)
    pub answers: Option<usize>,
    pub from: IpAddr,
    pub kind: RespKind,
    /// UDP checksum found in the quotation (C19)
    pub quoted_udp_cksum: Option<u16>,
    /// TOS / traffic class found in the quotation
    pub quoted_tos: Option<u8>,
    pub ext: Option<ExtStructure>,
    pub len: usize,
    /// the sequence number a junk packet names (never-sent / before-round injections)
    pub names_seq: Option<u16>,
}

#[derive(Clone, Debug)]
struct Pending {
    due_ns: u64,
    order: u64,
    bytes: Vec<u8>,
    meta: PktMeta,
}

#[derive(Clone, Debug, Serialize, Deserialize)]
pub struct OnWire {
    pub v6: bool,
    pub ttl: u8,
    pub tos: u8,
    pub src: IpAddr,
    pub dst: IpAddr,
    pub l4: L4,
    /// the complete IP datagram leaving the host (IPv6 header / non-raw headers synthesised)
    pub datagram: Vec<u8>,
    /// the bytes the tracer handed to `send_to` (empty for TCP)
    pub handed: Vec<u8>,
    /// were the bytes a full IP datagram built by the tracer itself?
    pub hdrincl: bool,
    pub send_addr: Option<SocketAddr>,
}

#[derive(Clone, Debug, Serialize, Deserialize)]
pub struct SendRec {
    pub idx: usize,
    pub t_ns: u64,
    pub round: usize,
    pub wire: Option<OnWire>,
    pub failed: Option<(Stage, i32)>,
    pub path: usize,
    /// 1-based position of the node that handled the probe (hops.len()+1 = target); 0 = none
    pub responder_pos: usize,
    pub responded: bool,
    pub tcp_sock: Option<u32>,
}

#[derive(Clone, Debug)]
pub struct PublishedRound {
    pub t_ns: u64,
    pub probes: Vec<trippy_core::ProbeStatus>,
    pub largest_ttl: u8,
    pub reason: trippy_core::CompletionReason,
}

#[derive(Clone, Debug)]
pub enum Event {
    Send(usize),
    /// a packet was read from the ICMP receive socket at `t_ns`
    Read { t_ns: u64, meta: PktMeta },
    /// the outcome of a TCP connect was observed (take_error) at `t_ns`
    TcpObserved { t_ns: u64, send_idx: usize, kind: RespKind, from: IpAddr },
    Publish(usize),
    /// poll returned without data after waiting
    PollTimeout { t_ns: u64 },
    Fault { t_ns: u64, stage: Stage, errno: i32 },
}

struct TcpSock {
    id: u32,
    send_idx: usize,
    outcome: Option<(u64, RespKind)>,
}

pub struct World {
    pub cfg: TraceCfg,
    pub spec: WorldSpec,
    pub src: IpAddr,
    pub target: IpAddr,
    queue: Vec<Pending>,
    order: u64,
    tcp: Vec<TcpSock>,
    pub events: Vec<Event>,
    pub sends: Vec<SendRec>,
    pub rounds: Vec<PublishedRound>,
    next_sock: u32,
    connected: bool,
    stage_calls: [u32; 8],
    node_counters: std::collections::HashMap<(usize, usize), u32>,
    pub calls: u64,
    pub call_cap: u64,
    pub time_cap_ns: u64,
    pub start_ns: u64,
    pub spin_ns: u64,
    pub aborted: Option<String>,
    pub injected: Vec<(usize, InjKind, bool)>,
    /// record every packet handed to the tracer (two-tracer decomposition)
    pub capture: bool,
    pub captured: Vec<RawInj>,
}

thread_local! {
    static WORLD: RefCell<Option<World>> = const { RefCell::new(None) };
}

pub fn install(w: World) {
    WORLD.with(|c| *c.borrow_mut() = Some(w));
}

pub fn take() -> Option<World> {
    WORLD.with(|c| c.borrow_mut().take())
}

pub fn with<R>(f: impl FnOnce(&mut World) -> R) -> R {
    WORLD.with(|c| {
        let mut b = c.borrow_mut();
        f(b.as_mut().expect("no simulated world installed on this thread"))
    })
}

fn stage_index(s: Stage) -> usize {
    match s {
        Stage::NewSocket => 0,
        Stage::Bind => 1,
        Stage::SetOpt => 2,
        Stage::Connect => 3,
        Stage::SendTo => 4,
        Stage::Poll => 5,
        Stage::Read => 6,
        Stage::TakeError => 7,
    }
}

fn os_err(errno: i32) -> io::Error {
    io::Error::from_raw_os_error(errno)
}

impl World {
    pub fn new(cfg: TraceCfg, spec: WorldSpec) -> Self {
        let src = cfg.src_addr();
        let target = cfg.target_addr();
        let per_round = cfg
            .max_round_ns
            .saturating_add(cfg.read_timeout_ns.max(1000))
            .saturating_add(1_000_000);
        let time_cap_ns = per_round
            .saturating_mul(u64::from(cfg.max_rounds) + 2)
            .saturating_add(10_000_000_000);
        // a zero read timeout makes the loop spin; one spin takes a fixed slice of the round so
        // that the number of iterations per round stays bounded
        let spin_ns = if cfg.read_timeout_ns == 0 {
            (cfg.max_round_ns / 200).max(1)
        } else {
            1000
        };
        Self {
            cfg,
            spec,
            src,
            target,
            queue: Vec::new(),
            order: 0,
            tcp: Vec::new(),
            events: Vec::new(),
            sends: Vec::new(),
            rounds: Vec::new(),
            next_sock: 0,
            connected: false,
            stage_calls: [0; 8],
            node_counters: std::collections::HashMap::new(),
            calls: 0,
            call_cap: 20_000_000,
            time_cap_ns,
            start_ns: vclock::now_ns(),
            spin_ns,
            aborted: None,
            injected: Vec::new(),
            capture: false,
            captured: Vec::new(),
        }
        .with_raw()
    }

    /// Make a raw packet readable right now (used by the receive-path sweeps).
    pub fn inject_now(&mut self, bytes: Vec<u8>, from: IpAddr) {
        let meta = PktMeta {
            class: PktClass::Junk("raw".into()),
            answers: None,
            from,
            kind: RespKind::TimeExceeded(0),
            quoted_udp_cksum: None,
            quoted_tos: None,
            ext: None,
            len: bytes.len(),
            names_seq: None,
        };
        self.enqueue(vclock::now_ns(), bytes, meta);
    }

    /// Drop the log (long sweeps over one world).
    pub fn clear_log(&mut self) {
        self.events.clear();
        self.sends.clear();
        self.queue.clear();
    }

    fn with_raw(mut self) -> Self {
        let raws = self.spec.raw.clone();
        for r in raws {
            let meta = PktMeta {
                class: PktClass::Junk(r.label.clone()),
                answers: None,
                from: r.from,
                kind: RespKind::TimeExceeded(0),
                quoted_udp_cksum: None,
                quoted_tos: None,
                ext: None,
                len: r.bytes.len(),
                names_seq: None,
            };
            self.enqueue(self.start_ns + r.at_ns, r.bytes, meta);
        }
        self
    }

    fn tick(&mut self) {
        self.calls += 1;
        if self.calls > self.call_cap {
            self.aborted = Some(format!("socket call cap {} exceeded", self.call_cap));
            std::panic::panic_any(ABORT_MARKER);
        }
        if vclock::now_ns().saturating_sub(self.start_ns) > self.time_cap_ns {
            self.aborted = Some(format!(
                "virtual time cap exceeded: {} ns elapsed, cap {} ns ({} rounds published of {})",
                vclock::now_ns() - self.start_ns,
                self.time_cap_ns,
                self.rounds.len(),
                self.cfg.max_rounds
            ));
            std::panic::panic_any(ABORT_MARKER);
        }
    }

    /// Is a fault scripted for this call of `stage`?  (Only calls made after the channel is
    /// connected are counted.)
    fn fault(&mut self, stage: Stage) -> Option<i32> {
        if !self.connected {
            return None;
        }
        let i = stage_index(stage);
        let n = self.stage_calls[i];
        self.stage_calls[i] += 1;
        let hit = self
            .spec
            .faults
            .iter()
            .find(|f| f.stage == stage && u32::from(f.nth) <= n && n <= u32::from(f.nth) + u32::from(f.repeat))
            .map(|f| f.errno);
        if let Some(e) = hit {
            self.events.push(Event::Fault {
                t_ns: vclock::now_ns(),
                stage,
                errno: e,
            });
        }
        hit
    }

    pub fn on_publish(&mut self, round: &trippy_core::Round<'_>) {
        self.rounds.push(PublishedRound {
            t_ns: vclock::now_ns(),
            probes: round.probes.to_vec(),
            largest_ttl: round.largest_ttl.0,
            reason: round.reason,
        });
        self.events.push(Event::Publish(self.rounds.len() - 1));
    }

    fn new_send(&mut self) -> usize {
        let idx = self.sends.len();
        self.sends.push(SendRec {
            idx,
            t_ns: vclock::now_ns(),
            round: self.rounds.len(),
            wire: None,
            failed: None,
            path: 0,
            responder_pos: 0,
            responded: false,
            tcp_sock: None,
        });
        self.events.push(Event::Send(idx));
        idx
    }

    fn enqueue(&mut self, due_ns: u64, bytes: Vec<u8>, meta: PktMeta) {
        self.order += 1;
        let p = Pending {
            due_ns,
            order: self.order,
            bytes,
            meta,
        };
        let pos = self
            .queue
            .iter()
            .position(|q| (q.due_ns, q.order) > (p.due_ns, p.order))
            .unwrap_or(self.queue.len());
        self.queue.insert(pos, p);
    }

    fn node_responds(&mut self, path: usize, pos: usize, mode: RespMode) -> bool {
        let c = self.node_counters.entry((path, pos)).or_insert(0);
        let n = *c;
        *c += 1;
        match mode {
            RespMode::Always => true,
            RespMode::Silent => false,
            RespMode::LossMask(m) => (m >> (n % 32)) & 1 == 0,
            RespMode::EveryKth(k) => {
                let k = u32::from(k.max(2));
                n % k == k - 1
            }
        }
    }

    fn flow_key(&self, w: &OnWire) -> u64 {
        let k = match &w.l4 {
            L4::Udp { sport, dport, .. } => (17u64 << 32) | (u64::from(*sport) << 16) | u64::from(*dport),
            L4::Tcp { sport, dport } => (6u64 << 32) | (u64::from(*sport) << 16) | u64::from(*dport),
            L4::IcmpEcho { id, seq, .. } => (1u64 << 32) | (u64::from(*id) << 16) | u64::from(*seq),
        };
        mix(k, self.spec.ecmp_salt)
    }

    /// The probe is on the wire: route it and schedule whatever comes back.
    fn route(&mut self, idx: usize) {
        let w = self.sends[idx].wire.clone().expect("wire");
        let npaths = self.spec.paths.len().max(1);
        let path_i = (self.flow_key(&w) % npaths as u64) as usize;
        self.sends[idx].path = path_i;
        let path = self.spec.paths[path_i].clone();
        let l = path.hops.len();
        let ttl = usize::from(w.ttl);
        if ttl == 0 {
            return;
        }
        let (pos, node, kind): (usize, HopSpec, Option<RespKind>) = match path.firewall {
            Some((k, code)) if usize::from(k) >= 1 && usize::from(k) <= l && ttl > usize::from(k) => (
                usize::from(k),
                path.hops[usize::from(k) - 1].clone(),
                Some(RespKind::Unreachable(code)),
            ),
            _ => {
                if ttl <= l {
                    (ttl, path.hops[ttl - 1].clone(), Some(RespKind::TimeExceeded(0)))
                } else {
                    (l + 1, self.spec.target.node.clone(), None)
                }
            }
        };
        self.sends[idx].responder_pos = pos;
        let is_target = kind.is_none();
        let mode = node.mode;
        if !self.node_responds(path_i, pos, mode) {
            self.fire_injections(idx);
            return;
        }
        self.sends[idx].responded = true;
        let jitter = if node.jitter_ns > 0 {
            mix(self.spec.seed, (idx as u64) << 8 | pos as u64) % node.jitter_ns
        } else {
            0
        };
        let due = vclock::now_ns() + node.delay_ns + jitter;
        let copies = 1 + u64::from(node.dups);
        for c in 0..copies {
            let due_c = due + c * node.dup_gap_ns.max(1);
            self.respond(idx, &w, &path, pos, &node, is_target, kind.clone(), due_c);
        }
        self.fire_injections(idx);
    }

    /// The datagram as the node at `pos` sees it (after remarking / translation by the nodes
    /// it passed through), with the quoted UDP checksum if any.
    fn datagram_at(&self, w: &OnWire, path: &PathSpec, pos: usize, quoted_ttl: u8) -> (Vec<u8>, Option<u16>, u8) {
        let mut d = w.datagram.clone();
        let mut tos = w.tos;
        for (i, h) in path.hops.iter().enumerate() {
            // router i+1 forwards the datagram only if the responder is beyond it
            if i + 1 < pos {
                if let Some(t) = h.tos_rewrite {
                    tos = t;
                }
            }
        }
        let mut udp_ck = match &w.l4 {
            L4::Udp { cksum, .. } => Some(*cksum),
            _ => None,
        };
        // NAT: the quoted checksum is that of the translated datagram
        if let L4::Udp { sport, dport, payload, .. } = &w.l4 {
            let mut cur_src = w.src;
            let mut cur_sport = *sport;
            let mut translated = false;
            let mut nats = path.nats.clone();
            nats.sort_by_key(|n| n.at);
            for n in &nats {
                let at = usize::from(n.at);
                if at < pos || (at == pos && n.inclusive) {
                    if n.restore {
                        cur_src = w.src;
                        cur_sport = *sport;
                    } else {
                        cur_src = host_addr(w.v6, 0x4000 | n.new_src);
                        if let Some(p) = n.new_sport {
                            cur_sport = p;
                        }
                    }
                    translated = true;
                }
            }
            if translated {
                // checksum of the translated datagram: a NAT updates it incrementally, which
                // for a valid checksum equals recomputation; for an arbitrary (Paris) value the
                // incremental update is applied to whatever was there.
                let old = udp_datagram_sum(w.src, w.dst, *sport, *dport, payload);
                let new = udp_datagram_sum(cur_src, w.dst, cur_sport, *dport, payload);
                if let Some(ck) = udp_ck {
                    // RFC 1624: HC' = ~(~HC + ~m + m')
                    let mut s = u32::from(!ck) + u32::from(!old) + u32::from(new);
                    while s >> 16 != 0 {
                        s = (s & 0xffff) + (s >> 16);
                    }
                    udp_ck = Some(!(s as u16));
                }
            }
        }
        if w.v6 {
            // traffic class lives in bits 4..12 of the first word
            let word = u32::from_be_bytes([d[0], d[1], d[2], d[3]]);
            let word = (word & 0xf00f_ffff) | (u32::from(tos) << 20);
            d[0..4].copy_from_slice(&word.to_be_bytes());
            d[7] = quoted_ttl;
            if let Some(ck) = udp_ck {
                d[46..48].copy_from_slice(&ck.to_be_bytes());
            }
        } else {
            let hl = usize::from(d[0] & 0xf) * 4;
            d[1] = tos;
            d[8] = quoted_ttl;
            d[10] = 0;
            d[11] = 0;
            let ck = wire::checksum(&[&d[..hl]]);
            d[10..12].copy_from_slice(&ck.to_be_bytes());
            if let Some(ck) = udp_ck {
                d[hl + 6..hl + 8].copy_from_slice(&ck.to_be_bytes());
            }
        }
        (d, udp_ck, tos)
    }

    #[allow(clippy::too_many_arguments)]
    fn respond(
        &mut self,
        idx: usize,
        w: &OnWire,
        path: &PathSpec,
        pos: usize,
        node: &HopSpec,
        is_target: bool,
        kind: Option<RespKind>,
        due: u64,
    ) {
        let from = if is_target {
            self.target
        } else {
            host_addr(w.v6, node.addr)
        };
        let kind = match kind {
            Some(k) => k,
            None => match (&w.l4, self.spec.target.kind) {
                (L4::IcmpEcho { .. }, _) => RespKind::EchoReply(0),
                (L4::Udp { .. }, _) => RespKind::Unreachable(if w.v6 { 4 } else { 3 }),
                (L4::Tcp { .. }, TargetKind::Normal) => RespKind::TcpConnected,
                (L4::Tcp { .. }, TargetKind::Refuse) => RespKind::TcpRefused,
            },
        };
        match kind {
            RespKind::TcpConnected | RespKind::TcpRefused => {
                if let Some(sock) = self.sends[idx].tcp_sock {
                    if let Some(t) = self.tcp.iter_mut().find(|t| t.id == sock) {
                        if t.outcome.is_none() {
                            t.outcome = Some((due, kind));
                        }
                    }
                }
            }
            RespKind::EchoReply(code) => {
                let (id, seq, payload) = match &w.l4 {
                    L4::IcmpEcho { id, seq, payload, .. } => (*id, *seq, payload.clone()),
                    _ => unreachable!(),
                };
                let bytes = self.build_echo_reply(w.v6, from, id, seq, &payload, node);
                let meta = PktMeta {
                    class: PktClass::Genuine,
                    answers: Some(idx),
                    from,
                    kind: RespKind::EchoReply(code),
                    quoted_udp_cksum: None,
                    quoted_tos: None,
                    ext: None,
                    len: bytes.len(),
                    names_seq: None,
                };
                self.enqueue(due, bytes, meta);
            }
            RespKind::TimeExceeded(_) | RespKind::Unreachable(_) => {
                let (d, udp_ck, tos) = self.datagram_at(w, path, pos, node.quoted_ttl);
                let (bytes, ext) = self.build_error(w.v6, from, &kind, &d, node);
                let meta = PktMeta {
                    class: PktClass::Genuine,
                    answers: Some(idx),
                    from,
                    kind,
                    quoted_udp_cksum: udp_ck,
                    quoted_tos: Some(tos),
                    ext,
                    len: bytes.len(),
                    names_seq: None,
                };
                self.enqueue(due, bytes, meta);
            }
        }
    }

    fn build_echo_reply(&self, v6: bool, from: IpAddr, id: u16, seq: u16, payload: &[u8], node: &HopSpec) -> Vec<u8> {
        let mut rest = [0u8; 4];
        rest[0..2].copy_from_slice(&id.to_be_bytes());
        rest[2..4].copy_from_slice(&seq.to_be_bytes());
        match (from, self.src) {
            (IpAddr::V4(f), IpAddr::V4(s)) if !v6 => {
                let icmp = wire::build_icmp(wire::ICMP4_ECHO_REPLY, 0, rest, payload, &[]);
                let opts = vec![1u8; usize::from(node.reply_ip_options.min(10)) * 4];
                wire::build_ip4(0, 0x1234, 0, 60, wire::PROTO_ICMP, f, s, &opts, &icmp, None)
            }
            (IpAddr::V6(f), IpAddr::V6(s)) => {
                let pseudo = wire::pseudo6(f, s, wire::PROTO_ICMPV6, (8 + payload.len()) as u32);
                wire::build_icmp(wire::ICMP6_ECHO_REPLY, 0, rest, payload, &pseudo)
            }
            _ => unreachable!(),
        }
    }

    /// Build an ICMP error message quoting `datagram` per the node's quotation policy.
    pub fn build_error(
        &self,
        v6: bool,
        from: IpAddr,
        kind: &RespKind,
        datagram: &[u8],
        node: &HopSpec,
    ) -> (Vec<u8>, Option<ExtStructure>) {
        let hl = if v6 { 40 } else { usize::from(datagram[0] & 0xf) * 4 };
        // quotation length by policy
        let mut qlen = if v6 {
            match node.quote {
                // RFC 4443: as much as fits; a node adding an extension may keep only 128 octets
                Quote::Min | Quote::Extra(_) if node.ext.is_some() => 128.min(datagram.len()).max((hl + 8).min(datagram.len())),
                _ => datagram.len(),
            }
        } else {
            match node.quote {
                Quote::Min => (hl + 8).min(datagram.len()),
                Quote::Extra(n) => (hl + 8 + usize::from(n)).min(datagram.len()),
                Quote::Full => datagram.len(),
            }
        };
        let ext_bytes = node.ext.as_ref().map(|e| (wire::encode_ext(&e.structure), e.style));
        // size limits: IPv4 ICMP errors are at most 576 octets (RFC 1812), IPv6 1280; and the
        // simulated nodes never exceed trippy's 1024-octet receive buffer when an extension
        // follows (a truncated extension would make the ground truth ambiguous).
        let unit = if v6 { 8 } else { 4 };
        let ext_len = ext_bytes.as_ref().map_or(0, |(b, _)| b.len());
        let outer = if v6 { 0 } else { 20 + usize::from(node.reply_ip_options.min(10)) * 4 };
        let limit_total: usize = if v6 {
            if ext_len > 0 { 1024 } else { 1280 - 40 }
        } else {
            576
        };
        let overhead = outer + 8 + ext_len + unit;
        let max_q = limit_total.saturating_sub(overhead);
        if qlen > max_q {
            qlen = max_q.max((hl + 8).min(datagram.len()));
        }
        let quoted = &datagram[..qlen];
        let (body, words) = wire::build_error_body(
            quoted,
            ext_bytes.as_ref().map(|(b, s)| (b.as_slice(), *s)),
            unit,
            node.set_len && quoted.len() / unit <= 255,
        );
        let (ty4, ty6, code) = match kind {
            RespKind::TimeExceeded(c) => (wire::ICMP4_TIME_EXCEEDED, wire::ICMP6_TIME_EXCEEDED, *c),
            RespKind::Unreachable(c) => (wire::ICMP4_DEST_UNREACH, wire::ICMP6_DEST_UNREACH, *c),
            _ => unreachable!(),
        };
        let ext = node.ext.as_ref().map(|e| e.structure.clone());
        match (from, self.src) {
            (IpAddr::V4(f), IpAddr::V4(s)) if !v6 => {
                let icmp = wire::build_icmp4_error(ty4, code, &body, words);
                let opts = vec![1u8; usize::from(node.reply_ip_options.min(10)) * 4];
                (
                    wire::build_ip4(0xc0, 0x4321, 0, 250, wire::PROTO_ICMP, f, s, &opts, &icmp, None),
                    ext,
                )
            }
            (IpAddr::V6(f), IpAddr::V6(s)) => (wire::build_icmp6_error(ty6, code, &body, words, f, s), ext),
            _ => unreachable!(),
        }
    }

    // ------------------------------------------------------------------ injections

    fn fire_injections(&mut self, idx: usize) {
        let injs: Vec<InjSpec> = self
            .spec
            .injections
            .iter()
            .filter(|i| usize::from(i.after_send) == idx)
            .cloned()
            .collect();
        for inj in injs {
            let ok = self.inject(idx, &inj);
            self.injected.push((idx, inj.kind, ok));
        }
    }

    /// Build and schedule one adversarial / additional packet.  Returns false when the
    /// injection does not apply to this configuration (counted by callers as excluded).
    fn inject(&mut self, idx: usize, inj: &InjSpec) -> bool {
        let due = vclock::now_ns() + inj.delay_ns;
        let back_idx = |back: u8| idx.checked_sub(usize::from(back));
        let cur_round = self.rounds.len();
        match inj.kind {
            InjKind::ExtraResponse { back } => {
                let Some(j) = back_idx(back) else { return false };
                let Some(w) = self.sends[j].wire.clone() else { return false };
                let pos = self.sends[j].responder_pos;
                if pos == 0 {
                    return false;
                }
                let path = self.spec.paths[self.sends[j].path].clone();
                let l = path.hops.len();
                let (node, is_target) = if pos == l + 1 {
                    (self.spec.target.node.clone(), true)
                } else {
                    (path.hops[pos - 1].clone(), false)
                };
                let kind = if is_target {
                    None
                } else if matches!(path.firewall, Some((k, _)) if usize::from(k) == pos && usize::from(w.ttl) > pos) {
                    Some(RespKind::Unreachable(path.firewall.unwrap().1))
                } else {
                    Some(RespKind::TimeExceeded(0))
                };
                if matches!(w.l4, L4::Tcp { .. }) && is_target {
                    return false;
                }
                self.respond(j, &w, &path, pos, &node, is_target, kind, due);
                true
            }
            _ => {
                // junk built from a template probe: the probe `back` sends ago (or this one)
                let back = match inj.kind {
                    InjKind::ForeignTraceId { back, .. }
                    | InjKind::OtherDest { back }
                    | InjKind::OtherPort { back, .. }
                    | InjKind::OtherProto { back }
                    | InjKind::NoMagic { back }
                    | InjKind::UnhandledType { back } => back,
                    _ => 0,
                };
                let Some(j) = back_idx(back) else { return false };
                let Some(w) = self.sends[j].wire.clone() else { return false };
                let Some((datagram, label, names_seq)) = self.junk_datagram(idx, &w, inj.kind, cur_round) else {
                    return false;
                };
                let node = HopSpec {
                    addr: 0x3000 + (idx as u16 & 0xff),
                    quote: Quote::Full,
                    ..HopSpec::default()
                };
                // every third junk packet comes from the tracer's own target address (a gateway that
                // is itself being traced, say): who sent a response says nothing about whose probe
                // it quotes
                let from = if idx % 3 == 0 { self.cfg.target_addr() } else { host_addr(w.v6, node.addr) };
                let kind = RespKind::TimeExceeded(0);
                let bytes = if let InjKind::UnhandledType { .. } = inj.kind {
                    // ICMP type the tracer does not handle (parameter problem / redirect)
                    let body = &datagram[..datagram.len().min(64)];
                    match (from, self.src) {
                        (IpAddr::V4(f), IpAddr::V4(s)) => {
                            let icmp = wire::build_icmp(12, 0, [0; 4], body, &[]);
                            wire::build_ip4(0, 1, 0, 60, wire::PROTO_ICMP, f, s, &[], &icmp, None)
                        }
                        (IpAddr::V6(f), IpAddr::V6(s)) => {
                            let pseudo = wire::pseudo6(f, s, wire::PROTO_ICMPV6, (8 + body.len()) as u32);
                            wire::build_icmp(4, 0, [0; 4], body, &pseudo)
                        }
                        _ => unreachable!(),
                    }
                } else {
                    self.build_error(w.v6, from, &kind, &datagram, &node).0
                };
                let meta = PktMeta {
                    class: PktClass::Junk(label),
                    answers: None,
                    from,
                    kind,
                    quoted_udp_cksum: None,
                    quoted_tos: None,
                    ext: None,
                    len: bytes.len(),
                    names_seq,
                };
                self.enqueue(due, bytes, meta);
                true
            }
        }
    }

    /// Sequence numbers put on the wire so far in the current round.
    fn round_sequences(&self, round: usize) -> Vec<u16> {
        self.sends
            .iter()
            .filter(|s| s.round == round)
            .filter_map(|s| s.wire.as_ref())
            .filter_map(|w| wire_sequence(&self.cfg, w))
            .collect()
    }

    /// Build the quoted datagram of a junk packet from a template probe.
    fn junk_datagram(
        &self,
        idx: usize,
        w: &OnWire,
        kind: InjKind,
        cur_round: usize,
    ) -> Option<(Vec<u8>, String, Option<u16>)> {
        let mut names_seq = None;
        let cfg = &self.cfg;
        let mut l4 = w.l4.clone();
        let mut dst = w.dst;
        let mut ip_id = if w.v6 { 0 } else { u16::from_be_bytes([w.datagram[4], w.datagram[5]]) };
        let label;
        match kind {
            InjKind::ForeignTraceId { id_delta, .. } => {
                let L4::IcmpEcho { id, .. } = &mut l4 else { return None };
                let mut nid = id.wrapping_add(id_delta.max(1));
                if nid == 0 || nid == cfg.trace_id {
                    nid = cfg.trace_id.wrapping_add(1).max(1);
                    if nid == cfg.trace_id {
                        return None;
                    }
                }
                *id = nid;
                label = "foreign-trace-id".to_string();
            }
            InjKind::OtherDest { .. } => {
                if matches!(l4, L4::IcmpEcho { .. }) {
                    // ICMP responses are matched by trace id and sequence only
                    return None;
                }
                dst = host_addr(w.v6, 0x2fff);
                label = "other-dest".to_string();
            }
            InjKind::OtherPort { delta, .. } => {
                let delta = delta.max(1);
                match (&mut l4, cfg.ports) {
                    (L4::Udp { sport, .. } | L4::Tcp { sport, .. }, Ports::FixedSrc(_)) => {
                        *sport = sport.wrapping_add(delta);
                    }
                    (L4::Udp { dport, .. } | L4::Tcp { dport, .. }, Ports::FixedDest(_)) => {
                        *dport = dport.wrapping_add(delta);
                    }
                    (L4::Udp { sport, dport, .. } | L4::Tcp { sport, dport }, Ports::FixedBoth(_, _)) => {
                        // another tracer may differ in either fixed port or in both
                        if delta % 3 != 1 {
                            *sport = sport.wrapping_add(delta);
                        }
                        if delta % 3 != 0 {
                            *dport = dport.wrapping_add(delta);
                        }
                    }
                    _ => return None,
                }
                label = "other-port".to_string();
            }
            InjKind::OtherProto { .. } => {
                // re-label the transport: UDP <-> TCP, ICMP -> UDP
                l4 = match l4 {
                    L4::IcmpEcho { id, seq, .. } => L4::Udp { sport: id, dport: seq, len: 8, cksum: 0, payload: vec![] },
                    L4::Udp { sport, dport, .. } => L4::Tcp { sport, dport },
                    L4::Tcp { sport, dport } => L4::Udp { sport, dport, len: 8, cksum: 0, payload: vec![] },
                };
                label = "other-proto".to_string();
            }
            InjKind::NoMagic { .. } => {
                if !(cfg.v6 && cfg.protocol == Proto::Udp && cfg.strategy == Strat::Dublin) {
                    return None;
                }
                let L4::Udp { payload, .. } = &mut l4 else { return None };
                if payload.len() < 6 {
                    return None;
                }
                for b in payload.iter_mut().take(6) {
                    *b = b'x';
                }
                label = "no-magic".to_string();
            }
            InjKind::NeverSent { offset } | InjKind::BeforeRound { offset } => {
                let seqs = self.round_sequences(cur_round);
                let cur = wire_sequence(cfg, w)?;
                let (lo, hi) = (seqs.iter().min().copied().unwrap_or(cur), seqs.iter().max().copied().unwrap_or(cur));
                let new_seq = match kind {
                    InjKind::NeverSent { .. } => hi.checked_add(1)?.checked_add(offset)?,
                    _ => lo.checked_sub(1)?.checked_sub(offset)?,
                };
                // sequences used anywhere in this run are not "never sent"
                if self
                    .sends
                    .iter()
                    .filter_map(|s| s.wire.as_ref())
                    .filter_map(|x| wire_sequence(cfg, x))
                    .any(|s| s == new_seq)
                {
                    return None;
                }
                if !set_wire_sequence(cfg, &mut l4, &mut ip_id, new_seq) {
                    return None;
                }
                names_seq = Some(new_seq);
                label = match kind {
                    InjKind::NeverSent { .. } => format!("never-sent+{}", if offset < 512 { "in-window" } else { "out-window" }),
                    _ => "before-round".to_string(),
                };
            }
            InjKind::UnhandledType { .. } => {
                label = "unhandled-type".to_string();
            }
            InjKind::ExtraResponse { .. } => return None,
        }
        let _ = idx;
        Some((rebuild_datagram(w, &l4, dst, ip_id), label, names_seq))
    }

    // ------------------------------------------------------------------ sending helpers

    fn put_on_wire(&mut self, idx: usize, w: OnWire) {
        self.sends[idx].wire = Some(w);
        vclock::advance(self.spec.send_cost_ns);
        self.route(idx);
    }
}

/// One's-complement sum contribution of the fields a NAT changes (source address and port).
fn udp_datagram_sum(src: IpAddr, _dst: IpAddr, sport: u16, _dport: u16, _payload: &[u8]) -> u16 {
    let a: Vec<u8> = match src {
        IpAddr::V4(a) => a.octets().to_vec(),
        IpAddr::V6(a) => a.octets().to_vec(),
    };
    wire::ones_sum(&[&a, &sport.to_be_bytes()])
}

/// The sequence number a probe carries, by the field the strategy prescribes.
pub fn wire_sequence(cfg: &TraceCfg, w: &OnWire) -> Option<u16> {
    match (&w.l4, cfg.protocol) {
        (L4::IcmpEcho { seq, .. }, Proto::Icmp) => Some(*seq),
        (L4::Tcp { sport, dport }, Proto::Tcp) => match cfg.ports {
            Ports::FixedSrc(_) => Some(*dport),
            _ => Some(*sport),
        },
        (L4::Udp { sport, dport, len, cksum, .. }, Proto::Udp) => match cfg.strategy {
            Strat::Classic => match cfg.ports {
                Ports::FixedDest(_) => Some(*sport),
                _ => Some(*dport),
            },
            Strat::Paris => Some(*cksum),
            Strat::Dublin => {
                if cfg.v6 {
                    // payload length minus the 6-octet magic, offset by the initial sequence
                    let pl = len.checked_sub(8)?.checked_sub(6)?;
                    cfg.initial_sequence.checked_add(pl)
                } else {
                    Some(u16::from_be_bytes([w.datagram[4], w.datagram[5]]))
                }
            }
        },
        _ => None,
    }
}

fn set_wire_sequence(cfg: &TraceCfg, l4: &mut L4, ip_id: &mut u16, seq: u16) -> bool {
    match (l4, cfg.protocol) {
        (L4::IcmpEcho { seq: s, .. }, Proto::Icmp) => {
            *s = seq;
            true
        }
        (L4::Tcp { sport, dport }, Proto::Tcp) => {
            match cfg.ports {
                Ports::FixedSrc(_) => *dport = seq,
                _ => *sport = seq,
            }
            true
        }
        (L4::Udp { sport, dport, len, cksum, payload }, Proto::Udp) => match cfg.strategy {
            Strat::Classic => {
                match cfg.ports {
                    Ports::FixedDest(_) => *sport = seq,
                    _ => *dport = seq,
                }
                true
            }
            Strat::Paris => {
                *cksum = seq;
                true
            }
            Strat::Dublin => {
                if cfg.v6 {
                    let Some(pl) = seq.checked_sub(cfg.initial_sequence) else { return false };
                    if usize::from(pl) + 6 > 976 {
                        return false;
                    }
                    let mut p = b"trippy".to_vec();
                    p.resize(6 + usize::from(pl), cfg.pattern);
                    *payload = p;
                    *len = (8 + payload.len()) as u16;
                    true
                } else {
                    *ip_id = seq;
                    true
                }
            }
        },
        _ => false,
    }
}

/// Re-encode a datagram from a template with modified transport / destination / IP id.
fn rebuild_datagram(w: &OnWire, l4: &L4, dst: IpAddr, ip_id: u16) -> Vec<u8> {
    let (proto, seg): (u8, Vec<u8>) = match l4 {
        L4::IcmpEcho { id, seq, payload, .. } => {
            let mut rest = [0u8; 4];
            rest[0..2].copy_from_slice(&id.to_be_bytes());
            rest[2..4].copy_from_slice(&seq.to_be_bytes());
            match (w.src, dst) {
                (IpAddr::V6(s), IpAddr::V6(d)) => {
                    let pseudo = wire::pseudo6(s, d, wire::PROTO_ICMPV6, (8 + payload.len()) as u32);
                    (wire::PROTO_ICMPV6, wire::build_icmp(wire::ICMP6_ECHO_REQUEST, 0, rest, payload, &pseudo))
                }
                _ => (wire::PROTO_ICMP, wire::build_icmp(wire::ICMP4_ECHO_REQUEST, 0, rest, payload, &[])),
            }
        }
        L4::Udp { sport, dport, len, cksum, payload } => {
            let mut v = wire::build_udp(*sport, *dport, payload, &[], Some(*cksum));
            v[4..6].copy_from_slice(&len.to_be_bytes());
            (wire::PROTO_UDP, v)
        }
        L4::Tcp { sport, dport } => (wire::PROTO_TCP, wire::build_tcp_syn(*sport, *dport, 0x0102_0304, &[])),
    };
    match (w.src, dst) {
        (IpAddr::V4(s), IpAddr::V4(d)) => wire::build_ip4(w.tos, ip_id, 0x4000, w.ttl, proto, s, d, &[], &seg, None),
        (IpAddr::V6(s), IpAddr::V6(d)) => wire::build_ip6(
            &wire::Ip6 {
                tclass: w.tos,
                flow: 0,
                payload_len: seg.len() as u16,
                next: proto,
                hop_limit: w.ttl,
                src: s,
                dst: d,
            },
            &seg,
        ),
        _ => unreachable!(),
    }
}

// ---------------------------------------------------------------------------------------------
// The Socket implementation

#[derive(Clone, Copy, Debug, PartialEq, Eq)]
enum Kind {
    IcmpSend { raw: bool, v6: bool },
    UdpSend { raw: bool, v6: bool },
    Recv { v6: bool },
    Stream { v6: bool },
    UdpDgram,
}

#[derive(Debug)]
pub struct SimSocket {
    id: u32,
    kind: Kind,
    ttl: u32,
    tos: u32,
    hops: u8,
    bound: Option<SocketAddr>,
    send_idx: Option<usize>,
    is_probe_socket: bool,
}

impl SimSocket {
    fn make(kind: Kind) -> IoResult<Self> {
        with(|w| {
            w.tick();
            let is_probe_socket = w.connected;
            let mut send_idx = None;
            if is_probe_socket {
                // a per-probe socket (unprivileged UDP / TCP): the dispatch starts here
                send_idx = Some(w.new_send());
                if let Some(e) = w.fault(Stage::NewSocket) {
                    w.sends[send_idx.unwrap()].failed = Some((Stage::NewSocket, e));
                    return Err(IoError::Other(os_err(e), IoOperation::NewSocket));
                }
            }
            w.next_sock += 1;
            let id = w.next_sock;
            if matches!(kind, Kind::Recv { .. }) {
                w.connected = true;
            }
            Ok(Self {
                id,
                kind,
                ttl: 64,
                tos: 0,
                hops: 64,
                bound: None,
                send_idx,
                is_probe_socket,
            })
        })
    }
}

impl Socket for SimSocket {
    fn new_icmp_send_socket_ipv4(raw: bool) -> IoResult<Self> {
        Self::make(Kind::IcmpSend { raw, v6: false })
    }
    fn new_icmp_send_socket_ipv6(raw: bool) -> IoResult<Self> {
        Self::make(Kind::IcmpSend { raw, v6: true })
    }
    fn new_udp_send_socket_ipv4(raw: bool) -> IoResult<Self> {
        Self::make(Kind::UdpSend { raw, v6: false })
    }
    fn new_udp_send_socket_ipv6(raw: bool) -> IoResult<Self> {
        Self::make(Kind::UdpSend { raw, v6: true })
    }
    fn new_recv_socket_ipv4(_addr: Ipv4Addr, _raw: bool) -> IoResult<Self> {
        Self::make(Kind::Recv { v6: false })
    }
    fn new_recv_socket_ipv6(_addr: Ipv6Addr, _raw: bool) -> IoResult<Self> {
        Self::make(Kind::Recv { v6: true })
    }
    fn new_stream_socket_ipv4() -> IoResult<Self> {
        Self::make(Kind::Stream { v6: false })
    }
    fn new_stream_socket_ipv6() -> IoResult<Self> {
        Self::make(Kind::Stream { v6: true })
    }
    fn new_udp_dgram_socket_ipv4() -> IoResult<Self> {
        Self::make(Kind::UdpDgram)
    }
    fn new_udp_dgram_socket_ipv6() -> IoResult<Self> {
        Self::make(Kind::UdpDgram)
    }

    fn bind(&mut self, address: SocketAddr) -> IoResult<()> {
        with(|w| {
            w.tick();
            if self.is_probe_socket {
                if let Some(e) = w.fault(Stage::Bind) {
                    if let Some(i) = self.send_idx {
                        w.sends[i].failed = Some((Stage::Bind, e));
                    }
                    return Err(IoError::Bind(os_err(e), address));
                }
            }
            self.bound = Some(address);
            Ok(())
        })
    }
    fn set_tos(&mut self, tos: u32) -> IoResult<()> {
        with(|w| {
            w.tick();
            self.tos = tos;
            Ok(())
        })
    }
    fn set_ttl(&mut self, ttl: u32) -> IoResult<()> {
        with(|w| {
            w.tick();
            self.ttl = ttl;
            Ok(())
        })
    }
    fn set_reuse_port(&mut self, _reuse: bool) -> IoResult<()> {
        Ok(())
    }
    fn set_header_included(&mut self, _included: bool) -> IoResult<()> {
        Ok(())
    }
    fn set_unicast_hops_v6(&mut self, hops: u8) -> IoResult<()> {
        with(|w| {
            w.tick();
            if let Some(e) = w.fault(Stage::SetOpt) {
                if let Some(i) = self.send_idx {
                    w.sends[i].failed = Some((Stage::SetOpt, e));
                }
                return Err(IoError::Other(os_err(e), IoOperation::SetUnicastHopsV6));
            }
            self.hops = hops;
            Ok(())
        })
    }

    fn connect(&mut self, address: SocketAddr) -> IoResult<()> {
        with(|w| {
            w.tick();
            let Kind::Stream { v6 } = self.kind else {
                return Ok(());
            };
            let idx = self.send_idx.expect("stream socket without dispatch");
            if let Some(e) = w.fault(Stage::Connect) {
                w.sends[idx].failed = Some((Stage::Connect, e));
                return Err(IoError::Connect(os_err(e), address));
            }
            let local = self.bound.unwrap_or_else(|| SocketAddr::new(w.src, 0));
            let ttl = if v6 { self.hops } else { self.ttl as u8 };
            let tos = if v6 { 0 } else { self.tos as u8 };
            let l4 = L4::Tcp {
                sport: local.port(),
                dport: address.port(),
            };
            let src = w.src;
            let tmpl = OnWire {
                v6,
                ttl,
                tos,
                src,
                dst: address.ip(),
                l4: l4.clone(),
                datagram: vec![],
                handed: vec![],
                hdrincl: false,
                send_addr: Some(address),
            };
            let ip_id = (mix(w.spec.seed, idx as u64) as u16) | 1;
            let datagram = rebuild_datagram(&tmpl, &l4, address.ip(), ip_id);
            w.tcp.push(TcpSock {
                id: self.id,
                send_idx: idx,
                outcome: None,
            });
            w.sends[idx].tcp_sock = Some(self.id);
            w.put_on_wire(idx, OnWire { datagram, ..tmpl });
            // a non-blocking connect reports EINPROGRESS
            Err(IoError::Connect(os_err(libc::EINPROGRESS), address))
        })
    }

    fn send_to(&mut self, buf: &[u8], addr: SocketAddr) -> IoResult<()> {
        with(|w| {
            w.tick();
            let idx = match self.send_idx {
                Some(i) if self.is_probe_socket => i,
                _ => w.new_send(),
            };
            if let Some(e) = w.fault(Stage::SendTo) {
                w.sends[idx].failed = Some((Stage::SendTo, e));
                return Err(IoError::SendTo(os_err(e), addr));
            }
            let src = w.src;
            let wire = match self.kind {
                Kind::IcmpSend { v6: false, .. } | Kind::UdpSend { raw: true, v6: false } => {
                    // IP_HDRINCL: the tracer built the whole datagram
                    decode_hdrincl_v4(buf, addr, w, idx)
                }
                Kind::IcmpSend { v6: true, .. } => {
                    let (IpAddr::V6(s), IpAddr::V6(d)) = (src, addr.ip()) else {
                        return Err(IoError::SendTo(os_err(libc::EINVAL), addr));
                    };
                    let h = wire::Ip6 {
                        tclass: 0,
                        flow: 0,
                        payload_len: buf.len() as u16,
                        next: wire::PROTO_ICMPV6,
                        hop_limit: self.hops,
                        src: s,
                        dst: d,
                    };
                    let l4 = match wire::parse_echo(buf) {
                        Ok((e, p)) => L4::IcmpEcho {
                            id: e.id,
                            seq: e.seq,
                            cksum: e.cksum,
                            payload: p.to_vec(),
                        },
                        Err(_) => return Err(IoError::SendTo(os_err(libc::EINVAL), addr)),
                    };
                    Some(OnWire {
                        v6: true,
                        ttl: self.hops,
                        tos: 0,
                        src,
                        dst: addr.ip(),
                        l4,
                        datagram: wire::build_ip6(&h, buf),
                        handed: buf.to_vec(),
                        hdrincl: false,
                        send_addr: Some(addr),
                    })
                }
                Kind::UdpSend { raw: true, v6: true } => {
                    let (IpAddr::V6(s), IpAddr::V6(d)) = (src, addr.ip()) else {
                        return Err(IoError::SendTo(os_err(libc::EINVAL), addr));
                    };
                    if addr.port() != 0 {
                        // Linux rejects a non-zero port on a raw IPv6 socket
                        return Err(IoError::SendTo(os_err(libc::EINVAL), addr));
                    }
                    let h = wire::Ip6 {
                        tclass: 0,
                        flow: 0,
                        payload_len: buf.len() as u16,
                        next: wire::PROTO_UDP,
                        hop_limit: self.hops,
                        src: s,
                        dst: d,
                    };
                    let l4 = match wire::parse_udp(buf) {
                        Ok((u, p)) => L4::Udp {
                            sport: u.sport,
                            dport: u.dport,
                            len: u.len,
                            cksum: u.cksum,
                            payload: p.to_vec(),
                        },
                        Err(_) => return Err(IoError::SendTo(os_err(libc::EINVAL), addr)),
                    };
                    Some(OnWire {
                        v6: true,
                        ttl: self.hops,
                        tos: 0,
                        src,
                        dst: addr.ip(),
                        l4,
                        datagram: wire::build_ip6(&h, buf),
                        handed: buf.to_vec(),
                        hdrincl: false,
                        send_addr: Some(addr),
                    })
                }
                Kind::UdpSend { raw: false, v6 } => {
                    // kernel builds UDP + IP headers from the socket state
                    let local = self.bound.unwrap_or_else(|| SocketAddr::new(src, 40000));
                    let ttl = if v6 { self.hops } else { self.ttl as u8 };
                    let tos = if v6 { 0 } else { self.tos as u8 };
                    let (datagram, cksum) = match (local.ip(), addr.ip()) {
                        (IpAddr::V4(s), IpAddr::V4(d)) => {
                            let pseudo = wire::pseudo4(s, d, wire::PROTO_UDP, (8 + buf.len()) as u16);
                            let u = wire::build_udp(local.port(), addr.port(), buf, &pseudo, None);
                            let ck = u16::from_be_bytes([u[6], u[7]]);
                            let id = (mix(w.spec.seed, idx as u64) as u16) | 1;
                            (wire::build_ip4(tos, id, 0x4000, ttl, wire::PROTO_UDP, s, d, &[], &u, None), ck)
                        }
                        (IpAddr::V6(s), IpAddr::V6(d)) => {
                            let pseudo = wire::pseudo6(s, d, wire::PROTO_UDP, (8 + buf.len()) as u32);
                            let u = wire::build_udp(local.port(), addr.port(), buf, &pseudo, None);
                            let ck = u16::from_be_bytes([u[6], u[7]]);
                            let h = wire::Ip6 {
                                tclass: 0,
                                flow: 0,
                                payload_len: u.len() as u16,
                                next: wire::PROTO_UDP,
                                hop_limit: ttl,
                                src: s,
                                dst: d,
                            };
                            (wire::build_ip6(&h, &u), ck)
                        }
                        _ => return Err(IoError::SendTo(os_err(libc::EINVAL), addr)),
                    };
                    Some(OnWire {
                        v6,
                        ttl,
                        tos,
                        src: local.ip(),
                        dst: addr.ip(),
                        l4: L4::Udp {
                            sport: local.port(),
                            dport: addr.port(),
                            len: (8 + buf.len()) as u16,
                            cksum,
                            payload: buf.to_vec(),
                        },
                        datagram,
                        handed: buf.to_vec(),
                        hdrincl: false,
                        send_addr: Some(addr),
                    })
                }
                _ => None,
            };
            match wire {
                Some(ow) => {
                    w.put_on_wire(idx, ow);
                    Ok(())
                }
                None => {
                    w.sends[idx].failed = Some((Stage::SendTo, libc::EINVAL));
                    Err(IoError::SendTo(os_err(libc::EINVAL), addr))
                }
            }
        })
    }

    fn is_readable(&mut self, timeout: Duration) -> IoResult<bool> {
        with(|w| {
            w.tick();
            if let Some(e) = w.fault(Stage::Poll) {
                return Err(IoError::Other(os_err(e), IoOperation::Select));
            }
            let now = vclock::now_ns();
            let to = timeout.as_nanos().min(u128::from(u64::MAX / 4)) as u64;
            match w.queue.first().map(|p| p.due_ns) {
                Some(due) if due <= now => {
                    if to == 0 {
                        vclock::advance(w.spin_ns);
                    }
                    Ok(true)
                }
                Some(due) if due <= now + to => {
                    vclock::set_ns(due);
                    Ok(true)
                }
                _ => {
                    vclock::advance(if to == 0 { w.spin_ns } else { to });
                    w.events.push(Event::PollTimeout { t_ns: vclock::now_ns() });
                    Ok(false)
                }
            }
        })
    }

    fn is_writable(&mut self) -> IoResult<bool> {
        with(|w| {
            w.tick();
            let now = vclock::now_ns();
            Ok(w.tcp
                .iter()
                .find(|t| t.id == self.id)
                .and_then(|t| t.outcome.as_ref())
                .is_some_and(|(due, _)| *due <= now))
        })
    }

    fn recv_from(&mut self, buf: &mut [u8]) -> IoResult<(usize, Option<SocketAddr>)> {
        with(|w| {
            w.tick();
            if let Some(e) = w.fault(Stage::Read) {
                return Err(IoError::Other(os_err(e), IoOperation::RecvFrom));
            }
            let now = vclock::now_ns();
            if w.queue.first().is_some_and(|p| p.due_ns <= now) {
                let p = w.queue.remove(0);
                vclock::advance(w.spec.recv_cost_ns);
                let n = p.bytes.len().min(buf.len());
                buf[..n].copy_from_slice(&p.bytes[..n]);
                let from = p.meta.from;
                if w.capture {
                    w.captured.push(RawInj {
                        at_ns: p.due_ns - w.start_ns,
                        bytes: p.bytes.clone(),
                        from,
                        label: "foreign-tracer".into(),
                    });
                }
                w.events.push(Event::Read {
                    t_ns: vclock::now_ns(),
                    meta: p.meta,
                });
                Ok((n, Some(SocketAddr::new(from, 0))))
            } else {
                Err(IoError::Other(
                    io::Error::from(io::ErrorKind::WouldBlock),
                    IoOperation::RecvFrom,
                ))
            }
        })
    }

    fn read(&mut self, buf: &mut [u8]) -> IoResult<usize> {
        with(|w| {
            w.tick();
            if let Some(e) = w.fault(Stage::Read) {
                return Err(IoError::Other(os_err(e), IoOperation::Read));
            }
            let now = vclock::now_ns();
            if w.queue.first().is_some_and(|p| p.due_ns <= now) {
                let p = w.queue.remove(0);
                vclock::advance(w.spec.recv_cost_ns);
                let n = p.bytes.len().min(buf.len());
                buf[..n].copy_from_slice(&p.bytes[..n]);
                if w.capture {
                    w.captured.push(RawInj {
                        at_ns: p.due_ns - w.start_ns,
                        bytes: p.bytes.clone(),
                        from: p.meta.from,
                        label: "foreign-tracer".into(),
                    });
                }
                w.events.push(Event::Read {
                    t_ns: vclock::now_ns(),
                    meta: p.meta,
                });
                Ok(n)
            } else {
                Err(IoError::Other(
                    io::Error::from(io::ErrorKind::WouldBlock),
                    IoOperation::Read,
                ))
            }
        })
    }

    fn shutdown(&mut self) -> IoResult<()> {
        Ok(())
    }

    fn peer_addr(&mut self) -> IoResult<Option<SocketAddr>> {
        with(|w| Ok(Some(SocketAddr::new(w.target, 0))))
    }

    fn take_error(&mut self) -> IoResult<Option<SocketError>> {
        with(|w| {
            w.tick();
            if let Some(e) = w.fault(Stage::TakeError) {
                return Err(IoError::Other(os_err(e), IoOperation::TakeError));
            }
            let Some(pos) = w.tcp.iter().position(|t| t.id == self.id) else {
                return Ok(None);
            };
            let t = w.tcp.remove(pos);
            let (_, kind) = t.outcome.expect("take_error on a socket that is not writable");
            let target = w.target;
            w.events.push(Event::TcpObserved {
                t_ns: vclock::now_ns(),
                send_idx: t.send_idx,
                kind: kind.clone(),
                from: target,
            });
            Ok(match kind {
                RespKind::TcpRefused => Some(SocketError::ConnectionRefused),
                _ => None,
            })
        })
    }

    fn icmp_error_info(&mut self) -> IoResult<IpAddr> {
        Ok(IpAddr::V4(Ipv4Addr::UNSPECIFIED))
    }
}

/// Decode a datagram the tracer built itself (IP_HDRINCL) with the independent decoder.
fn decode_hdrincl_v4(buf: &[u8], addr: SocketAddr, w: &mut World, idx: usize) -> Option<OnWire> {
    let (h, payload) = wire::parse_ip4(buf).ok()?;
    let l4 = match h.proto {
        wire::PROTO_ICMP => {
            let (e, p) = wire::parse_echo(payload).ok()?;
            L4::IcmpEcho {
                id: e.id,
                seq: e.seq,
                cksum: e.cksum,
                payload: p.to_vec(),
            }
        }
        wire::PROTO_UDP => {
            let (u, p) = wire::parse_udp(payload).ok()?;
            L4::Udp {
                sport: u.sport,
                dport: u.dport,
                len: u.len,
                cksum: u.cksum,
                payload: p.to_vec(),
            }
        }
        _ => return None,
    };
    // the kernel fills in the header checksum, and the identification when the transport does
    // not use it (ICMP probes carry 0 there)
    let mut d = buf.to_vec();
    if h.id == 0 && h.proto == wire::PROTO_ICMP {
        let id = (mix(w.spec.seed, idx as u64) as u16) | 1;
        d[4..6].copy_from_slice(&id.to_be_bytes());
    }
    let hl = usize::from(h.ihl) * 4;
    d[10] = 0;
    d[11] = 0;
    let ck = wire::checksum(&[&d[..hl]]);
    d[10..12].copy_from_slice(&ck.to_be_bytes());
    Some(OnWire {
        v6: false,
        ttl: h.ttl,
        tos: h.tos,
        src: IpAddr::V4(h.src),
        dst: IpAddr::V4(h.dst),
        l4,
        datagram: d,
        handed: buf.to_vec(),
        hdrincl: true,
        send_addr: Some(addr),
    })
}

#[allow(dead_code)]
fn _unused(_: Ipv6Addr) {}
