//! Check engine: seeds, sharded proptest runners, shrinking, replay files, evidence, class
//! counters, known-findings matching and panic capture.

use proptest::strategy::{BoxedStrategy, Strategy, ValueTree};
use proptest::test_runner::{Config, RngAlgorithm, TestCaseError, TestError, TestRng, TestRunner};
use serde::de::DeserializeOwned;
use serde::Serialize;
use serde_json::{json, Value};
use std::cell::RefCell;
use std::collections::{BTreeMap, HashSet};
use std::fmt::Debug;
use std::panic::{catch_unwind, AssertUnwindSafe};
use std::path::PathBuf;
use std::sync::atomic::{AtomicBool, AtomicU64, Ordering};
use std::sync::Mutex;
use std::time::Instant;

pub const SHARDS: u64 = 16;

#[derive(Clone, Copy, Debug, PartialEq, Eq)]
pub enum Tier {
    Quick,
    Thorough,
}

impl Tier {
    pub fn name(self) -> &'static str {
        match self {
            Tier::Quick => "quick",
            Tier::Thorough => "thorough",
        }
    }
    /// Pick a case count by tier.
    pub fn pick(self, quick: u64, thorough: u64) -> u64 {
        match self {
            Tier::Quick => quick,
            Tier::Thorough => thorough,
        }
    }
}

#[derive(Clone, Debug)]
pub struct Ctx {
    pub prop: String,
    pub tier: Tier,
    pub seed: u64,
    pub verif_dir: PathBuf,
    /// where evidence/ and replays/ are written (VERIF_OUT_DIR, default = verif_dir)
    pub out_dir: PathBuf,
    /// Scale factor applied to every case count (VERIF_SCALE, default 1.0).
    pub scale: f64,
}

impl Ctx {
    pub fn cases(&self, quick: u64, thorough: u64) -> u64 {
        let n = self.tier.pick(quick, thorough) as f64 * self.scale;
        (n as u64).max(SHARDS)
    }
}

/// A failed check of one case.
#[derive(Clone, Debug)]
pub struct Fail {
    /// Stable signature: oracle clause + trigger class (used for known-findings matching).
    pub sig: String,
    pub msg: String,
}

impl Fail {
    pub fn new(sig: impl Into<String>, msg: impl Into<String>) -> Self {
        Self {
            sig: sig.into(),
            msg: msg.into(),
        }
    }
}

pub type CheckResult = Result<(), Fail>;

#[macro_export]
macro_rules! vfail {
    ($sig:expr, $($arg:tt)*) => {
        return Err($crate::engine::Fail::new($sig, format!($($arg)*)))
    };
}

#[macro_export]
macro_rules! vensure {
    ($cond:expr, $sig:expr, $($arg:tt)*) => {
        if !($cond) {
            return Err($crate::engine::Fail::new($sig, format!($($arg)*)));
        }
    };
}

/// Observations a test makes about one case (merged into the report unless shrinking).
#[derive(Default, Debug)]
pub struct Obs {
    pub nontrivial: Vec<u64>,
    pub classes: Vec<String>,
    pub excluded: Vec<String>,
    pub sample: Option<Value>,
    pub extra_evals: u64,
}

impl Obs {
    /// Record that the case was non-trivial, with a signature used for distinct counting.
    pub fn nontrivial<H: std::hash::Hash>(&mut self, sig: &H) {
        self.nontrivial.push(hash64(sig));
    }
    pub fn class(&mut self, label: impl Into<String>) {
        self.classes.push(label.into());
    }
    pub fn excluded(&mut self, why: impl Into<String>) {
        self.excluded.push(why.into());
    }
    pub fn sample(&mut self, v: Value) {
        if self.sample.is_none() {
            self.sample = Some(v);
        }
    }
}

pub fn hash64<H: std::hash::Hash>(h: &H) -> u64 {
    // FNV-1a over the std Hash stream: deterministic across runs (no RandomState).
    struct Fnv(u64);
    impl std::hash::Hasher for Fnv {
        fn finish(&self) -> u64 {
            self.0
        }
        fn write(&mut self, bytes: &[u8]) {
            for b in bytes {
                self.0 ^= u64::from(*b);
                self.0 = self.0.wrapping_mul(0x100_0000_01b3);
            }
        }
    }
    let mut f = Fnv(0xcbf2_9ce4_8422_2325);
    h.hash(&mut f);
    std::hash::Hasher::finish(&f)
}

pub fn mix(a: u64, b: u64) -> u64 {
    let mut z = a ^ b.wrapping_mul(0x9E37_79B9_7F4A_7C15);
    z = (z ^ (z >> 30)).wrapping_mul(0xBF58_476D_1CE4_E5B9);
    z = (z ^ (z >> 27)).wrapping_mul(0x94D0_49BB_1331_11EB);
    z ^ (z >> 31)
}

#[derive(Clone, Debug, Serialize)]
pub struct Violation {
    pub sub: String,
    pub sig: String,
    pub msg: String,
    pub replay: String,
}

#[derive(Default)]
pub struct ReportInner {
    pub evaluations: u64,
    pub nontrivial: HashSet<u64>,
    pub classes: BTreeMap<String, u64>,
    pub excluded: BTreeMap<String, u64>,
    pub samples: Vec<Value>,
    pub violations: Vec<Violation>,
    pub known_hits: Vec<String>,
    pub subs: Vec<Value>,
    pub exhaustive_parts: Vec<String>,
    pub notes: Vec<String>,
}

pub struct Report {
    pub inner: Mutex<ReportInner>,
    pub start: Instant,
}

impl Default for Report {
    fn default() -> Self {
        Self {
            inner: Mutex::new(ReportInner::default()),
            start: Instant::now(),
        }
    }
}

impl Report {
    pub fn merge_obs(&self, sub: &str, obs: Obs) {
        let mut r = self.inner.lock().unwrap();
        r.evaluations += 1 + obs.extra_evals;
        for n in obs.nontrivial {
            r.nontrivial.insert(mix(hash64(&sub), n));
        }
        for c in obs.classes {
            *r.classes.entry(format!("{sub}/{c}")).or_default() += 1;
        }
        for c in obs.excluded {
            *r.excluded.entry(format!("{sub}/{c}")).or_default() += 1;
        }
        if let Some(s) = obs.sample {
            let n = r.samples.iter().filter(|v| v["sub"] == sub).count();
            if n < 2 {
                r.samples.push(json!({"sub": sub, "case": s}));
            }
        }
    }
    pub fn note(&self, s: impl Into<String>) {
        self.inner.lock().unwrap().notes.push(s.into());
    }
    pub fn exhaustive(&self, s: impl Into<String>) {
        self.inner.lock().unwrap().exhaustive_parts.push(s.into());
    }
    pub fn sub_summary(&self, v: Value) {
        self.inner.lock().unwrap().subs.push(v);
    }
}

// ---------------------------------------------------------------------------------------------
// Panic capture

thread_local! {
    static LAST_PANIC: RefCell<Option<String>> = const { RefCell::new(None) };
    static QUIET: std::cell::Cell<bool> = const { std::cell::Cell::new(false) };
}

pub fn install_panic_hook() {
    let default = std::panic::take_hook();
    std::panic::set_hook(Box::new(move |info| {
        let loc = info
            .location()
            .map(|l| format!("{}:{}", l.file(), l.line()))
            .unwrap_or_default();
        let msg = if let Some(s) = info.payload().downcast_ref::<&str>() {
            (*s).to_string()
        } else if let Some(s) = info.payload().downcast_ref::<String>() {
            s.clone()
        } else {
            "<non-string panic>".to_string()
        };
        // the capped layout solver (vendor/cassowary): name the trippy render module the split
        // was requested from, so that the recorded finding is keyed on its call site
        let msg = if msg.starts_with("failed to split") && msg.contains("pivot cap") {
            let bt = std::backtrace::Backtrace::force_capture().to_string();
            let module = bt
                .split("trippy_tui::frontend::render::")
                .nth(1)
                .and_then(|rest| rest.split("::").next())
                .unwrap_or("unknown")
                .to_string();
            format!("layout solver cycling under render::{module}")
        } else {
            msg
        };
        let quiet = QUIET.try_with(std::cell::Cell::get).unwrap_or(false);
        let _ = LAST_PANIC.try_with(|p| *p.borrow_mut() = Some(format!("{msg} @ {loc}")));
        if !quiet {
            default(info);
        }
    }));
}

/// Run `f`, converting a panic into `Err(message @ file:line)`.
pub fn catch<R>(f: impl FnOnce() -> R) -> Result<R, String> {
    let prev = QUIET.with(|q| q.replace(true));
    LAST_PANIC.with(|p| *p.borrow_mut() = None);
    let r = catch_unwind(AssertUnwindSafe(f));
    QUIET.with(|q| q.set(prev));
    match r {
        Ok(v) => Ok(v),
        Err(_) => Err(LAST_PANIC
            .with(|p| p.borrow_mut().take())
            .unwrap_or_else(|| "<panic>".into())),
    }
}

/// Strip volatile parts (numbers) out of a panic message so that it can serve as a signature.
pub fn panic_sig(msg: &str) -> String {
    // keep the location (file:line) but drop digits from the message part
    let (m, loc) = match msg.rsplit_once(" @ ") {
        Some((m, l)) => (m, l),
        None => (msg, ""),
    };
    let m: String = m
        .chars()
        .map(|c| if c.is_ascii_digit() { '#' } else { c })
        .collect();
    let m = if m.len() > 80 { m[..80].to_string() } else { m };
    let loc = loc
        .rsplit_once("/src/")
        .map(|(pre, post)| {
            let krate = pre.rsplit('/').next().unwrap_or("");
            format!("{krate}/src/{post}")
        })
        .unwrap_or_else(|| loc.to_string());
    format!("panic:{m}@{loc}")
}

// ---------------------------------------------------------------------------------------------
// Sub-checks

pub trait SubCheck: Sync {
    fn name(&self) -> &str;
    fn run(&self, ctx: &Ctx, rep: &Report);
    fn replay(&self, case: &Value) -> CheckResult;
    /// Coverage-guided bridge: draw one case with `data` as the generator's random stream and
    /// judge it.  `None` = this sub-check has no generator to drive.
    fn fuzz_one(&self, _data: &[u8]) -> Option<Result<(), (Fail, Value)>> {
        None
    }
    /// As `fuzz_one`, then shrink a failing case with the generator's own shrinker.
    fn fuzz_shrink(&self, _data: &[u8], _max_iters: u32) -> Option<Result<(), (Fail, Value)>> {
        None
    }
}

/// The value tree a generator builds when `data` is its random stream (zeros once exhausted).
fn tree_from_bytes<T: Debug>(strat: &BoxedStrategy<T>, data: &[u8]) -> Option<Box<dyn ValueTree<Value = T>>> {
    // proptest's pass-through stream turns into zeros once exhausted, and rand's uniform sampler
    // rejects an all-zero word for ranges that are not a power of two - for ever.  So the input
    // is followed by a long fixed pseudo-random tail (the same for every input); sub-generators
    // forked off the stream (shuffle, perturb) draw from that tail.
    const TAIL: usize = 256 * 1024;
    static PAD: std::sync::OnceLock<Vec<u8>> = std::sync::OnceLock::new();
    let pad = PAD.get_or_init(|| (0..TAIL as u64).map(|k| (mix(0x7a11, k / 8) >> ((k % 8) * 8)) as u8).collect());
    let mut stream = Vec::with_capacity(data.len() + TAIL);
    stream.extend_from_slice(data);
    stream.extend_from_slice(pad);
    let rng = TestRng::from_seed(RngAlgorithm::PassThrough, &stream);
    let mut runner = TestRunner::new_with_rng(Config { failure_persistence: None, ..Config::default() }, rng);
    strat.new_tree(&mut runner).ok()
}

thread_local! {
    /// generators are built once per thread for the guided bridge (keyed by the constructor)
    static STRATS: RefCell<std::collections::HashMap<usize, Box<dyn std::any::Any>>> = RefCell::new(std::collections::HashMap::new());
}

fn with_cached_strat<T: 'static, R>(mk: fn() -> BoxedStrategy<T>, f: impl FnOnce(&BoxedStrategy<T>) -> R) -> R {
    STRATS.with(|m| {
        let mut m = m.borrow_mut();
        let e = m.entry(mk as usize).or_insert_with(|| Box::new(mk()) as Box<dyn std::any::Any>);
        f(e.downcast_ref::<BoxedStrategy<T>>().expect("strategy type"))
    })
}

/// A property-based sub-check over generated values of `T`.
pub struct Pbt<T: 'static> {
    pub name: &'static str,
    pub quick: u64,
    pub thorough: u64,
    pub strat: fn() -> BoxedStrategy<T>,
    pub test: fn(&T, &mut Obs) -> CheckResult,
    pub max_shrink: u32,
}

/// Cases currently being executed by shards of a watched sub-check: (start, case as JSON).
pub static IN_FLIGHT: Mutex<Vec<Option<(Instant, String)>>> = Mutex::new(Vec::new());

/// Free-text progress notes of watched cases, by the thread running the case (diagnosis of a
/// stuck case: which step it was in).
pub static PROGRESS: Mutex<Vec<(std::thread::ThreadId, String)>> = Mutex::new(Vec::new());

pub fn note_progress(s: String) {
    let id = std::thread::current().id();
    let mut g = PROGRESS.lock().unwrap();
    if let Some(e) = g.iter_mut().find(|e| e.0 == id) {
        e.1 = s;
    } else {
        g.push((id, s));
    }
}

/// Seconds after which a watched case is declared stuck (0 = sub-check not watched).
pub static WATCH_S: AtomicU64 = AtomicU64::new(0);

fn run_one<T>(test: fn(&T, &mut Obs) -> CheckResult, v: &T, obs: &mut Obs) -> CheckResult {
    match catch(|| test(v, obs)) {
        Ok(r) => r,
        Err(p) => Err(Fail::new(panic_sig(&p), format!("panic: {p}"))),
    }
}

impl<T> SubCheck for Pbt<T>
where
    T: Debug + Clone + Serialize + DeserializeOwned + 'static,
{
    fn name(&self) -> &str {
        self.name
    }

    fn run(&self, ctx: &Ctx, rep: &Report) {
        let total = ctx.cases(self.quick, self.thorough);
        let per = total.div_ceil(SHARDS);
        let t0 = Instant::now();
        let stop = AtomicBool::new(false);
        let evals = AtomicU64::new(0);
        std::thread::scope(|s| {
            for shard in 0..SHARDS {
                let stop = &stop;
                let evals = &evals;
                s.spawn(move || {
                    let seed = mix(mix(ctx.seed, hash64(&(ctx.prop.as_str(), self.name))), shard);
                    crate::hrand::set_thread_keys(seed);
                    let mut bytes = [0u8; 32];
                    for (i, b) in bytes.iter_mut().enumerate() {
                        *b = (mix(seed, i as u64 / 8) >> ((i % 8) * 8)) as u8;
                    }
                    let rng = TestRng::from_seed(RngAlgorithm::ChaCha, &bytes);
                    let config = Config {
                        cases: per as u32,
                        failure_persistence: None,
                        max_shrink_iters: self.max_shrink,
                        max_global_rejects: 65536,
                        ..Config::default()
                    };
                    let mut runner = TestRunner::new_with_rng(config, rng);
                    let strat = (self.strat)();
                    let failed = std::cell::Cell::new(false);
                    let last_fail: RefCell<Option<Fail>> = RefCell::new(None);
                    let known: Vec<KnownFinding> = load_known(ctx).findings.into_iter().filter(|k| k.property == ctx.prop && k.status == "open").collect();
                    let res = runner.run(&strat, |v| {
                        if stop.load(Ordering::Relaxed) && !failed.get() {
                            // another shard already failed: finish quickly
                            return Ok(());
                        }
                        let watched = WATCH_S.load(Ordering::Relaxed) > 0;
                        if watched {
                            let js = serde_json::to_string(&v).unwrap_or_default();
                            let mut g = IN_FLIGHT.lock().unwrap();
                            if g.len() <= shard as usize {
                                g.resize(shard as usize + 1, None);
                            }
                            g[shard as usize] = Some((Instant::now(), js));
                        }
                        let mut obs = Obs::default();
                        let r = run_one(self.test, &v, &mut obs);
                        if watched {
                            if let Some(slot) = IN_FLIGHT.lock().unwrap().get_mut(shard as usize) {
                                *slot = None;
                            }
                        }
                        // a recorded (open) finding is tolerated in-target so that the search goes
                        // on behind it: reported as KNOWN-FINDING, counted, the case is excluded
                        let r = match r {
                            Err(f) if known.iter().any(|k| k.sig == f.sig) => {
                                let k = known.iter().find(|k| k.sig == f.sig).unwrap();
                                let line = format!("KNOWN-FINDING: property={} {} [{}]", ctx.prop, k.what, k.sig);
                                let mut g = rep.inner.lock().unwrap();
                                if !g.known_hits.contains(&line) {
                                    g.known_hits.push(line);
                                }
                                *g.excluded.entry(format!("{}/recorded finding hit: {}", self.name, k.sig)).or_insert(0) += 1;
                                if std::env::var_os("VERIF_PROGRESS").is_some() {
                                    eprintln!("recorded finding hit in {}: {}", self.name, f.msg);
                                }
                                return Ok(());
                            }
                            other => other,
                        };
                        if !failed.get() {
                            if r.is_ok() {
                                evals.fetch_add(1, Ordering::Relaxed);
                                rep.merge_obs(self.name, obs);
                            } else {
                                rep.inner.lock().unwrap().evaluations += 1;
                            }
                        }
                        match r {
                            Ok(()) => Ok(()),
                            Err(f) => {
                                failed.set(true);
                                stop.store(true, Ordering::Relaxed);
                                let m = format!("{}|{}", f.sig, f.msg);
                                *last_fail.borrow_mut() = Some(f);
                                Err(TestCaseError::fail(m))
                            }
                        }
                    });
                    match res {
                        Ok(()) => {}
                        Err(TestError::Fail(_, value)) => {
                            // re-run the shrunk value to get its own signature/message
                            let mut obs = Obs::default();
                            let f = match run_one(self.test, &value, &mut obs) {
                                Err(f) => f,
                                Ok(()) => last_fail
                                    .borrow_mut()
                                    .take()
                                    .unwrap_or_else(|| Fail::new("flaky", "shrunk case passed on re-run")),
                            };
                            record_violation(ctx, rep, self.name, &f, serde_json::to_value(&value).unwrap());
                        }
                        Err(TestError::Abort(why)) => {
                            rep.note(format!("{}: shard {shard} aborted: {why}", self.name));
                        }
                    }
                });
            }
        });
        rep.sub_summary(json!({
            "sub": self.name, "kind": "pbt", "cases_requested": total,
            "cases_passed": evals.load(Ordering::Relaxed),
            "wall_s": t0.elapsed().as_secs_f64(),
        }));
    }

    fn fuzz_one(&self, data: &[u8]) -> Option<Result<(), (Fail, Value)>> {
        let tree = with_cached_strat(self.strat, |s| tree_from_bytes(s, data));
        let Some(tree) = tree else { return Some(Ok(())) };
        let v = tree.current();
        let mut obs = Obs::default();
        Some(run_one(self.test, &v, &mut obs).map_err(|f| (f, serde_json::to_value(&v).unwrap_or(Value::Null))))
    }

    fn fuzz_shrink(&self, data: &[u8], max_iters: u32) -> Option<Result<(), (Fail, Value)>> {
        let tree = with_cached_strat(self.strat, |s| tree_from_bytes(s, data));
        let Some(mut tree) = tree else { return Some(Ok(())) };
        let mut best = tree.current();
        let mut obs = Obs::default();
        let mut best_fail = match run_one(self.test, &best, &mut obs) {
            Ok(()) => return Some(Ok(())),
            Err(f) => f,
        };
        if tree.simplify() {
            for _ in 0..max_iters {
                let v = tree.current();
                let mut obs = Obs::default();
                match run_one(self.test, &v, &mut obs) {
                    Err(f) => {
                        best = v;
                        best_fail = f;
                        if !tree.simplify() {
                            break;
                        }
                    }
                    Ok(()) => {
                        if !tree.complicate() {
                            break;
                        }
                    }
                }
            }
        }
        Some(Err((best_fail, serde_json::to_value(&best).unwrap_or(Value::Null))))
    }

    fn replay(&self, case: &Value) -> CheckResult {
        let v: T = serde_json::from_value(case.clone())
            .map_err(|e| Fail::new("replay-decode", format!("cannot decode case: {e}")))?;
        let mut obs = Obs::default();
        run_one(self.test, &v, &mut obs)
    }
}

/// An enumerated sub-check: `enumerate` yields every case of a finite space (or a fixed list).
pub struct Enumerated<T: 'static> {
    pub name: &'static str,
    pub exhaustive_note: Option<&'static str>,
    pub cases: fn(Tier) -> Vec<T>,
    pub test: fn(&T, &mut Obs) -> CheckResult,
}

impl<T> SubCheck for Enumerated<T>
where
    T: Debug + Clone + Serialize + DeserializeOwned + Sync + Send + 'static,
{
    fn name(&self) -> &str {
        self.name
    }
    fn run(&self, ctx: &Ctx, rep: &Report) {
        let t0 = Instant::now();
        let cases = (self.cases)(ctx.tier);
        let n = cases.len();
        let next = AtomicU64::new(0);
        let fails: Mutex<Vec<(usize, Fail)>> = Mutex::new(Vec::new());
        std::thread::scope(|s| {
            for _ in 0..SHARDS {
                s.spawn(|| loop {
                    let i = next.fetch_add(1, Ordering::Relaxed) as usize;
                    if i >= n {
                        break;
                    }
                    let mut obs = Obs::default();
                    match run_one(self.test, &cases[i], &mut obs) {
                        Ok(()) => rep.merge_obs(self.name, obs),
                        Err(f) => {
                            rep.inner.lock().unwrap().evaluations += 1;
                            fails.lock().unwrap().push((i, f));
                        }
                    }
                });
            }
        });
        let mut fails = fails.into_inner().unwrap();
        fails.sort_by_key(|(i, _)| *i);
        // one violation per distinct signature (smallest index first)
        let mut seen = HashSet::new();
        for (i, f) in fails {
            if seen.insert(f.sig.clone()) {
                record_violation(ctx, rep, self.name, &f, serde_json::to_value(&cases[i]).unwrap());
            }
        }
        if let Some(note) = self.exhaustive_note {
            rep.exhaustive(format!("{}: {note} ({n} cases)", self.name));
        }
        rep.sub_summary(json!({
            "sub": self.name, "kind": "enumerated", "cases": n,
            "wall_s": t0.elapsed().as_secs_f64(),
        }));
    }
    fn replay(&self, case: &Value) -> CheckResult {
        let v: T = serde_json::from_value(case.clone())
            .map_err(|e| Fail::new("replay-decode", format!("cannot decode case: {e}")))?;
        let mut obs = Obs::default();
        run_one(self.test, &v, &mut obs)
    }
}

// ---------------------------------------------------------------------------------------------
// Known findings, violations, replay files

#[derive(Clone, Debug, serde::Deserialize)]
pub struct KnownFinding {
    pub property: String,
    /// "open" or "fixed"
    pub status: String,
    /// exact signature produced by the failing oracle
    pub sig: String,
    pub what: String,
    #[serde(default)]
    pub replay: Option<String>,
    #[serde(default)]
    pub commit: Option<String>,
}

#[derive(Clone, Debug, Default, serde::Deserialize)]
pub struct KnownFindings {
    #[serde(default)]
    pub findings: Vec<KnownFinding>,
}

pub fn load_known(ctx: &Ctx) -> KnownFindings {
    let p = ctx.verif_dir.join("known_findings.json");
    match std::fs::read_to_string(&p) {
        Ok(s) => serde_json::from_str(&s).unwrap_or_else(|e| {
            eprintln!("warning: cannot parse {}: {e}", p.display());
            KnownFindings::default()
        }),
        Err(_) => KnownFindings::default(),
    }
}

pub fn is_known_open(ctx: &Ctx, sig: &str) -> Option<KnownFinding> {
    load_known(ctx)
        .findings
        .into_iter()
        .find(|k| k.property == ctx.prop && k.status == "open" && k.sig == sig)
}

fn record_violation(ctx: &Ctx, rep: &Report, sub: &str, f: &Fail, case: Value) {
    if let Some(k) = is_known_open(ctx, &f.sig) {
        let mut r = rep.inner.lock().unwrap();
        let line = format!("KNOWN-FINDING: property={} {} [{}]", ctx.prop, k.what, k.sig);
        if !r.known_hits.contains(&line) {
            r.known_hits.push(line);
        }
        return;
    }
    let dir = ctx.out_dir.join("replays");
    let _ = std::fs::create_dir_all(&dir);
    let h = hash64(&(sub, &f.sig, case.to_string()));
    let path = dir.join(format!("{}-{}-{:016x}.json", ctx.prop, sub, h));
    let body = json!({
        "property": ctx.prop, "sub": sub, "sig": f.sig, "msg": f.msg,
        "seed": ctx.seed, "tier": ctx.tier.name(), "case": case,
    });
    let _ = std::fs::write(&path, serde_json::to_string_pretty(&body).unwrap());
    let mut r = rep.inner.lock().unwrap();
    if r.violations.iter().any(|v| v.sig == f.sig && v.sub == sub) {
        return;
    }
    r.violations.push(Violation {
        sub: sub.to_string(),
        sig: f.sig.clone(),
        msg: f.msg.clone(),
        replay: path.display().to_string(),
    });
}

/// Description of a property's check: its sub-checks and evidence metadata.
pub struct PropertyCheck {
    pub id: &'static str,
    pub level: &'static str,
    pub rule: &'static str,
    pub assumptions: Vec<&'static str>,
    pub subs: Vec<Box<dyn SubCheck>>,
}

/// Run all sub-checks of a property, write evidence, print result lines, return the exit code.
pub fn run_property(ctx: &Ctx, pc: &PropertyCheck, only_sub: Option<&str>) -> i32 {
    let rep = Report::default();
    // 1. regressions (replays of repaired defects) and open known findings
    let regress_dir = ctx.verif_dir.join("regress").join(pc.id);
    let mut regress_run = 0u64;
    if let Ok(rd) = std::fs::read_dir(&regress_dir) {
        let mut files: Vec<_> = rd.filter_map(Result::ok).map(|e| e.path()).collect();
        files.sort();
        for p in files {
            if p.extension().and_then(|e| e.to_str()) != Some("json") {
                continue;
            }
            let Ok(s) = std::fs::read_to_string(&p) else { continue };
            let Ok(v) = serde_json::from_str::<Value>(&s) else { continue };
            let sub = v["sub"].as_str().unwrap_or("");
            if let Some(sc) = pc.subs.iter().find(|s| s.name() == sub) {
                regress_run += 1;
                rep.inner.lock().unwrap().evaluations += 1;
                if let Err(f) = sc.replay(&v["case"]) {
                    if let Some(k) = is_known_open(ctx, &f.sig) {
                        let line = format!("KNOWN-FINDING: property={} {} [{}]", ctx.prop, k.what, k.sig);
                        let mut r = rep.inner.lock().unwrap();
                        if !r.known_hits.contains(&line) {
                            r.known_hits.push(line);
                        }
                    } else {
                        let mut r = rep.inner.lock().unwrap();
                        r.violations.push(Violation {
                            sub: sub.to_string(),
                            sig: f.sig.clone(),
                            msg: format!("regression {}: {}", p.display(), f.msg),
                            replay: p.display().to_string(),
                        });
                    }
                }
            }
        }
    }
    // 2. the sub-checks
    for sc in &pc.subs {
        if let Some(o) = only_sub {
            if sc.name() != o {
                continue;
            }
        }
        sc.run(ctx, &rep);
    }
    // 2b. coverage-guided companions of the property-based sub-checks (corpus replay in every
    //     tier, libFuzzer campaign in the thorough tier)
    for spec in crate::props::guided_for(pc.id) {
        // VERIF_NO_GUIDED: used by tools/seed_eval_iso.sh, whose harness copy is bound to a patched
        // worktree while the fuzz crate is not
        if std::env::var_os("VERIF_NO_GUIDED").is_some() {
            break;
        }
        let gname = format!("guided-{}", spec.sub);
        if only_sub.is_some_and(|o| o != gname) {
            continue;
        }
        if let Some(sc) = pc.subs.iter().find(|s| s.name() == spec.sub) {
            run_guided(ctx, &rep, sc.as_ref(), &spec);
        }
    }
    // 3. evidence + output
    let wall = rep.start.elapsed().as_secs_f64();
    let r = rep.inner.lock().unwrap();
    let evidence = json!({
        "property_id": pc.id,
        "tier": ctx.tier.name(),
        "seed": ctx.seed,
        "level": pc.level,
        "coverage": {
            "evaluations": r.evaluations,
            "distinct_nontrivial": r.nontrivial.len(),
            "rule": pc.rule,
            "samples": r.samples,
            "classes": r.classes,
            "excluded_by_construction": r.excluded,
            "sub_checks": r.subs,
            "exhaustive": false,
            "exhaustive_sub_spaces": r.exhaustive_parts,
            "regressions_replayed": regress_run,
            "known_findings_hit": r.known_hits,
            "notes": r.notes,
        },
        "assumptions": pc.assumptions,
        "wall_s": wall,
        "violations": r.violations.len(),
        "violation_details": r.violations,
    });
    let edir = ctx.out_dir.join("evidence");
    let _ = std::fs::create_dir_all(&edir);
    if only_sub.is_none() {
        let _ = std::fs::write(
            edir.join(format!("{}.json", pc.id)),
            serde_json::to_string_pretty(&evidence).unwrap(),
        );
    }
    for k in &r.known_hits {
        println!("{k}");
    }
    println!(
        "{} {}: evaluations={} distinct_nontrivial={} violations={} wall={:.1}s",
        pc.id,
        ctx.tier.name(),
        r.evaluations,
        r.nontrivial.len(),
        r.violations.len(),
        wall
    );
    if r.violations.is_empty() {
        0
    } else {
        for v in &r.violations {
            println!("  failing oracle [{}] {}: {}", v.sub, v.sig, v.msg);
            println!("VIOLATION property={} replay={}", pc.id, v.replay);
        }
        1
    }
}

/// Replay one saved case file.
pub fn replay_file(pc: &PropertyCheck, path: &str) -> i32 {
    let s = match std::fs::read_to_string(path) {
        Ok(s) => s,
        Err(e) => {
            eprintln!("cannot read {path}: {e}");
            return 2;
        }
    };
    let v: Value = match serde_json::from_str(&s) {
        Ok(v) => v,
        Err(e) => {
            eprintln!("cannot parse {path}: {e}");
            return 2;
        }
    };
    let sub = v["sub"].as_str().unwrap_or("");
    // a case written by the stuck-case monitor belongs to the (first) watched sub-check
    let found = pc.subs.iter().find(|s| s.name() == sub).or_else(|| if sub == "stuck" { pc.subs.first() } else { None });
    let Some(sc) = found else {
        eprintln!("unknown sub-check {sub} for {}", pc.id);
        return 2;
    };
    match sc.replay(&v["case"]) {
        Ok(()) => {
            println!("{} replay {path}: passes", pc.id);
            0
        }
        Err(f) => {
            println!("  failing oracle [{sub}] {}: {}", f.sig, f.msg);
            println!("VIOLATION property={} replay={path}", pc.id);
            1
        }
    }
}

/// Helper: box a strategy.
pub fn bx<S: Strategy + 'static>(s: S) -> BoxedStrategy<S::Value> {
    s.boxed()
}

/// Generate `n` values from a strategy with a fixed seed (used by enumerated checks that want
/// a random supplement, and by fuzz corpus generation).
pub fn sample_n<T: Debug>(strat: &BoxedStrategy<T>, seed: u64, n: usize) -> Vec<T> {
    let mut bytes = [0u8; 32];
    for (i, b) in bytes.iter_mut().enumerate() {
        *b = (mix(seed, i as u64 / 8) >> ((i % 8) * 8)) as u8;
    }
    let rng = TestRng::from_seed(RngAlgorithm::ChaCha, &bytes);
    let mut runner = TestRunner::new_with_rng(Config::default(), rng);
    (0..n)
        .map(|_| strat.new_tree(&mut runner).unwrap().current())
        .collect()
}

// ---------------------------------------------------------------------------------------------
// Coverage-guided search (libFuzzer) over the generators of the property-based sub-checks.
//
// The cargo-fuzz target `pbt_bridge` hands every libFuzzer input to `fuzz_entry`, which uses the
// bytes as the random stream of the chosen sub-check's proptest generator (RngAlgorithm::
// PassThrough), runs the sub-check's own oracle on the generated case and aborts on a failure
// after writing the case as an ordinary replay file.  libFuzzer's coverage feedback (the tested
// crates are instrumented) then steers the *generator's choices* towards inputs that reach new
// code in trippy, with the semantic oracle inside the target.

struct FuzzTarget {
    pc: PropertyCheck,
    idx: usize,
    known: Vec<KnownFinding>,
    out: PathBuf,
}

thread_local! {
    static FUZZ_TARGET: RefCell<Option<FuzzTarget>> = const { RefCell::new(None) };
}

fn fuzz_target_init() -> FuzzTarget {
    // replaces libfuzzer-sys's abort-on-panic hook: panics inside `catch` are oracle input
    install_panic_hook();
    crate::hrand::set_thread_keys(0x5eed);
    let spec = std::env::var("VERIF_FUZZ_TARGET").expect("VERIF_FUZZ_TARGET=<ID>/<sub-check>");
    let (id, sub) = spec.split_once('/').expect("VERIF_FUZZ_TARGET=<ID>/<sub-check>");
    let pc = crate::props::by_id(id).expect("unknown property");
    let idx = pc.subs.iter().position(|s| s.name() == sub).expect("unknown sub-check");
    let verif_dir = PathBuf::from(std::env::var("VERIF_DIR").unwrap_or_else(|_| "/verif".into()));
    let out = std::env::var("VERIF_FUZZ_OUT").map(PathBuf::from).unwrap_or_else(|_| verif_dir.join("replays"));
    let ctx = Ctx { prop: id.to_string(), tier: Tier::Thorough, seed: 0, verif_dir, out_dir: out.clone(), scale: 1.0 };
    let known = load_known(&ctx).findings.into_iter().filter(|k| k.property == id && k.status == "open").collect();
    FuzzTarget { pc, idx, known, out }
}

/// Entry point of the cargo-fuzz target `pbt_bridge`.
pub fn fuzz_entry(data: &[u8]) {
    FUZZ_TARGET.with(|t| {
        let mut t = t.borrow_mut();
        let ft = t.get_or_insert_with(fuzz_target_init);
        let sc = &ft.pc.subs[ft.idx];
        if let Some(Err((f, case))) = sc.fuzz_one(data) {
            if ft.known.iter().any(|k| k.sig == f.sig) {
                return; // a recorded finding: tolerated in-target so that the campaign goes on
            }
            let _ = std::fs::create_dir_all(&ft.out);
            let h = hash64(&(sc.name(), &f.sig, case.to_string()));
            let path = ft.out.join(format!("{}-guided-{}-{:016x}.json", ft.pc.id, sc.name(), h));
            let body = json!({"property": ft.pc.id, "sub": sc.name(), "sig": f.sig, "msg": f.msg, "tier": "thorough", "case": case});
            let _ = std::fs::write(&path, serde_json::to_string_pretty(&body).unwrap());
            eprintln!("guided: failing oracle [{}] {}: {}\nguided: case written to {}", sc.name(), f.sig, f.msg, path.display());
            std::process::abort();
        }
    });
}

/// A coverage-guided companion of a property-based sub-check (same generator, same oracle).
/// Thorough tier: a libFuzzer campaign.  Every tier: the committed corpus
/// (`corpus/<ID>/<sub>/`, distilled from earlier campaigns) is replayed in-process first.
#[derive(Clone, Copy, Debug)]
pub struct GuidedSpec {
    pub sub: &'static str,
    /// executions in the thorough tier (split over the workers)
    pub runs: u64,
    /// input length = octets of generator randomness the fuzzer controls (a fixed tail follows)
    pub max_len: u32,
}

fn judge_input(ctx: &Ctx, rep: &Report, sc: &dyn SubCheck, data: &[u8], origin: &str) -> bool {
    match sc.fuzz_shrink(data, 2000) {
        Some(Err((f, case))) => {
            let f = Fail::new(f.sig, format!("{} (from {origin})", f.msg));
            record_violation(ctx, rep, sc.name(), &f, case);
            true
        }
        _ => false,
    }
}

pub fn run_guided(ctx: &Ctx, rep: &Report, sc: &dyn SubCheck, spec: &GuidedSpec) {
    let name = format!("guided-{}", sc.name());
    {
        let t0 = Instant::now();
        let committed = ctx.verif_dir.join("corpus").join(&ctx.prop).join(sc.name());
        let mut corpus_files: Vec<PathBuf> = std::fs::read_dir(&committed).map(|rd| rd.filter_map(Result::ok).map(|e| e.path()).collect()).unwrap_or_default();
        corpus_files.sort();
        // 1. every tier: replay the committed corpus in-process
        let mut replayed = 0u64;
        for p in &corpus_files {
            if let Ok(bytes) = std::fs::read(p) {
                replayed += 1;
                if judge_input(ctx, rep, sc, &bytes, &p.display().to_string()) {
                    break;
                }
            }
        }
        rep.inner.lock().unwrap().evaluations += replayed;
        if ctx.tier != Tier::Thorough {
            rep.sub_summary(json!({"sub": name, "kind": "corpus replay (coverage-guided campaign runs in the thorough tier)", "corpus_inputs": replayed, "wall_s": t0.elapsed().as_secs_f64()}));
            return;
        }
        // 2. thorough: build the target and run the campaign
        let fuzz_dir = ctx.verif_dir.join("fuzz");
        let harness_dir = ctx.verif_dir.join("harness");
        let build = std::process::Command::new("cargo")
            // no AddressSanitizer: the oracle is semantic, and the target runs ~6x faster without
            .args(["+nightly", "fuzz", "build", "-O", "-s", "none", "--target-dir"])
            .arg(fuzz_dir.join("target-nosan"))
            .arg("--fuzz-dir")
            .arg(&fuzz_dir)
            .arg("pbt_bridge")
            .current_dir(&harness_dir)
            .env("CARGO_NET_OFFLINE", "true")
            .output();
        match build {
            Ok(o) if o.status.success() => {}
            Ok(o) => {
                rep.note(format!("{}: fuzz target build failed (inconclusive): {}", name, String::from_utf8_lossy(&o.stderr).lines().rev().take(5).collect::<Vec<_>>().join(" | ")));
                return;
            }
            Err(e) => {
                rep.note(format!("{}: cannot start cargo fuzz (inconclusive): {e}", name));
                return;
            }
        }
        let bin = fuzz_dir.join("target-nosan/x86_64-unknown-linux-gnu/release/pbt_bridge");
        let work = ctx.out_dir.join("fuzz-work").join(format!("{}-{}", ctx.prop, sc.name()));
        let _ = std::fs::remove_dir_all(&work);
        let cdir = work.join("corpus");
        let art = work.join("artifacts");
        let rdir = work.join("replays");
        for d in [&cdir, &art, &rdir] {
            let _ = std::fs::create_dir_all(d);
        }
        for (i, p) in corpus_files.iter().enumerate() {
            let _ = std::fs::copy(p, cdir.join(format!("committed-{i:05}")));
        }
        // seed corpus: random streams of full length (from an empty corpus libFuzzer grows inputs
        // slowly and a short stream means "zeros" = the generator's minimal choices)
        for i in 0..64u64 {
            let v: Vec<u8> = (0..spec.max_len as u64).map(|k| (mix(mix(ctx.seed, i), k / 8) >> ((k % 8) * 8)) as u8).collect();
            let _ = std::fs::write(cdir.join(format!("seed-{i:03}")), v);
        }
        let workers = SHARDS;
        let runs = (ctx.cases(0, spec.runs) / workers).max(1);
        let out = std::process::Command::new(&bin)
            .arg(&cdir)
            .arg(format!("-runs={runs}"))
            .arg(format!("-jobs={workers}"))
            .arg(format!("-workers={workers}"))
            .arg(format!("-seed={}", (mix(ctx.seed, hash64(&name)) % 0xffff_fff0).max(1)))
            .arg(format!("-max_len={}", spec.max_len))
            .args(["-len_control=0", "-print_final_stats=1", "-timeout=300", "-rss_limit_mb=6000", "-use_value_profile=1"])
            .arg(format!("-artifact_prefix={}/", art.display()))
            .current_dir(&work)
            .env("VERIF_FUZZ_TARGET", format!("{}/{}", ctx.prop, sc.name()))
            .env("VERIF_DIR", &ctx.verif_dir)
            .env("VERIF_FUZZ_OUT", &rdir)
            .output();
        let Ok(out) = out else {
            rep.note(format!("{}: could not run the fuzz target (inconclusive)", name));
            return;
        };
        // per-worker logs fuzz-<k>.log in the working directory
        let mut execs = 0u64;
        let mut cov = 0u64;
        let mut logs_tail = String::new();
        if let Ok(rd) = std::fs::read_dir(&work) {
            for e in rd.filter_map(Result::ok) {
                let p = e.path();
                if p.extension().and_then(|x| x.to_str()) != Some("log") {
                    continue;
                }
                let s = std::fs::read_to_string(&p).unwrap_or_default();
                execs += s.lines().find_map(|l| l.strip_prefix("stat::number_of_executed_units:").and_then(|x| x.trim().parse::<u64>().ok())).unwrap_or(0);
                for l in s.lines() {
                    if let Some(i) = l.find(" cov: ") {
                        if let Some(n) = l[i + 6..].split_whitespace().next().and_then(|x| x.parse::<u64>().ok()) {
                            cov = cov.max(n);
                        }
                    }
                }
                if !s.contains("stat::number_of_executed_units") || s.contains("ERROR: libFuzzer") {
                    logs_tail = s.lines().rev().take(4).collect::<Vec<_>>().join(" | ");
                }
            }
        }
        rep.inner.lock().unwrap().evaluations += execs;
        let corpus_after = std::fs::read_dir(&cdir).map(|rd| rd.count()).unwrap_or(0);
        // 3. artifacts: a crash counts only if the input fails in this (the harness) build too
        let mut crashes = 0u32;
        let mut reproduced = 0u32;
        let mut stalls = 0u32;
        if let Ok(rd) = std::fs::read_dir(&art) {
            let mut files: Vec<_> = rd.filter_map(Result::ok).map(|e| e.path()).collect();
            files.sort();
            for p in files {
                let name = p.file_name().and_then(|n| n.to_str()).unwrap_or("").to_string();
                if name.starts_with("timeout-") || name.starts_with("oom-") || name.starts_with("slow-unit-") {
                    stalls += 1;
                    continue;
                }
                crashes += 1;
                if let Ok(bytes) = std::fs::read(&p) {
                    if judge_input(ctx, rep, sc, &bytes, &format!("libFuzzer artifact {}", p.display())) {
                        reproduced += 1;
                    }
                }
            }
        }
        if crashes > reproduced {
            rep.note(format!("{}: {} libFuzzer artifact(s) did not fail when re-run in the harness build (inconclusive, not a violation): {}", name, crashes - reproduced, logs_tail));
        }
        if stalls > 0 {
            rep.note(format!("{}: {stalls} timeout / out-of-memory artifact(s) (inconclusive, not a violation), kept under {}", name, art.display()));
        }
        if !out.status.success() && crashes == 0 && stalls == 0 {
            rep.note(format!("{}: libFuzzer exited with {:?} and no artifact (inconclusive): {logs_tail}", name, out.status.code()));
        }
        rep.sub_summary(json!({
            "sub": name, "kind": "coverage-guided fuzzing (libFuzzer input = random stream of the generator; oracle inside the target)",
            "executions": execs, "workers": workers, "max_len": spec.max_len, "coverage_edges": cov,
            "committed_corpus_inputs": replayed, "corpus_after": corpus_after, "crash_artifacts": crashes, "reproduced_in_harness_build": reproduced,
            "corpus_dir": cdir.display().to_string(), "wall_s": t0.elapsed().as_secs_f64(),
        }));
    }

}
