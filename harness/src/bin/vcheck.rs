//! CLI: vcheck <ID> <quick|thorough> | vcheck <ID> --replay <file> | vcheck --list
use std::path::PathBuf;
use trippy_verif::engine::{self, Ctx, Tier};

trippy_verif::interpose_clock!();
trippy_verif::interpose_random!();

fn main() {
    let args: Vec<String> = std::env::args().skip(1).collect();
    engine::install_panic_hook();
    if let Err(e) = trippy_verif::vclock::self_test().and_then(|()| trippy_verif::hrand::self_test()) {
        eprintln!("INCONCLUSIVE: {e}");
        std::process::exit(2);
    }
    if args.first().map(String::as_str) == Some("--list") {
        for p in trippy_verif::props::all() {
            println!("{}", p.id);
        }
        return;
    }
    if args.first().map(String::as_str) == Some("--dump") {
        let s = std::fs::read_to_string(&args[1]).expect("read");
        let v: serde_json::Value = serde_json::from_str(&s).expect("json");
        let case: trippy_verif::props::SimCase = serde_json::from_value(v["case"].clone()).expect("case");
        let log = trippy_verif::simnet::run_trace(&case.cfg, &case.world);
        trippy_verif::simnet::run::dump(&log);
        return;
    }
    if args.first().map(String::as_str) == Some("--layout-probe") {
        // vcheck --layout-probe <fixed columns of Min(7)> <width> <iterations> [host]
        use ratatui::layout::{Constraint, Flex, Layout, Rect};
        let n: usize = args[1].parse().unwrap();
        let width: u16 = args[2].parse().unwrap();
        let iters: u16 = args[3].parse().unwrap();
        let host = args.get(4).is_some();
        let fixed_total: u16 = 4 + 7 * n as u16;
        let mut c = vec![Constraint::Min(4)];
        if host {
            c.push(Constraint::Min(width.saturating_sub(fixed_total)));
        }
        c.extend(std::iter::repeat(Constraint::Min(7)).take(n));
        let mut capped = 0u32;
        let mut slowest = std::time::Duration::ZERO;
        for y in 0..iters {
            let t0 = std::time::Instant::now();
            let r = std::panic::catch_unwind(|| {
                let _ = Layout::horizontal(c.clone()).flex(Flex::Start).spacing(1).split(Rect::new(0, y, width, 1));
            });
            if r.is_err() {
                capped += 1;
            }
            slowest = slowest.max(t0.elapsed());
        }
        println!(
            "{iters} splits: {capped} hit the pivot cap, slowest {slowest:?}, most pivots in a terminating optimise call {}",
            cassowary::VERIF_PIVOTS_MAX.load(std::sync::atomic::Ordering::Relaxed)
        );
        return;
    }
    if args.first().map(String::as_str) == Some("--find-layout-demo") {
        // vcheck --find-layout-demo <from> <count>: hash seeds that make the C17 demonstration cycle
        let from: u64 = args[1].parse().unwrap();
        let count: u64 = args[2].parse().unwrap();
        let t0 = std::time::Instant::now();
        let v = trippy_verif::props::c17::find_layout_demo(from, count);
        println!("found {v:?} in {:?}", t0.elapsed());
        if let (Some(k), Some(path)) = (v.first(), args.get(3)) {
            // write the demonstration as a regression / known-finding replay file
            let body = serde_json::json!({
                "property": "C17", "sub": "ui-ops", "sig": trippy_verif::props::c17::LAYOUT_HANG_SIG,
                "msg": "demonstration of the recorded finding: hop table with twelve columns, hash seeds fixed",
                "case": trippy_verif::props::c17::layout_demo_case(*k),
            });
            std::fs::write(path, serde_json::to_string_pretty(&body).unwrap()).expect("write demo");
            println!("written {path}");
        }
        return;
    }
    if args.first().map(String::as_str) == Some("--run-app-outline") {
        print!("{}", trippy_verif::tui_loop::outline());
        return;
    }
    if args.first().map(String::as_str) == Some("--frame") {
        // vcheck --frame <TUI replay file>: print the last frame of a C17/C18 case
        let v: serde_json::Value = serde_json::from_str(&std::fs::read_to_string(&args[1]).expect("read")).expect("json");
        let case: trippy_verif::tui::TuiCase = serde_json::from_value(v["case"].clone()).expect("case");
        let mut s = trippy_verif::tui::start(&case).expect("start");
        let _ = s.refresh_and_draw();
        for op in &case.ops {
            let _ = s.apply(op);
            let _ = s.refresh_and_draw();
        }
        for r in s.rows() {
            println!("{r}");
        }
        return;
    }
    if args.first().map(String::as_str) == Some("--gen-corpus") {
        let dir = std::path::PathBuf::from(&args[1]);
        std::fs::create_dir_all(&dir).expect("mkdir");
        for (i, b) in trippy_verif::props::c04::fuzz_corpus().iter().enumerate() {
            std::fs::write(dir.join(format!("seed-{i:04}")), b).expect("write");
        }
        return;
    }
    if args.len() < 2 {
        eprintln!("usage: vcheck <ID> <quick|thorough> [--sub <name>] | vcheck <ID> --replay <file>");
        std::process::exit(2);
    }
    let id = args[0].clone();
    let Some(pc) = trippy_verif::props::by_id(&id) else {
        eprintln!("unknown property {id}");
        std::process::exit(2);
    };
    if args[1] == "--replay" {
        let Some(path) = args.get(2) else {
            eprintln!("--replay needs a file");
            std::process::exit(2);
        };
        if pc.id == "C04" {
            if let Some(r) = trippy_verif::props::c04::replay_raw(path) {
                match r {
                    Ok(()) => {
                        println!("C04 replay {path}: passes");
                        std::process::exit(0);
                    }
                    Err(f) => {
                        println!("  failing oracle [libfuzzer] {}: {}", f.sig, f.msg);
                        println!("VIOLATION property=C04 replay={path}");
                        std::process::exit(1);
                    }
                }
            }
        }
        std::process::exit(engine::replay_file(&pc, path));
    }
    let tier = match args[1].as_str() {
        "quick" => Tier::Quick,
        "thorough" => Tier::Thorough,
        other => {
            eprintln!("unknown tier {other}");
            std::process::exit(2);
        }
    };
    let only_sub = args
        .iter()
        .position(|a| a == "--sub")
        .and_then(|i| args.get(i + 1))
        .cloned();
    let seed = std::env::var("VERIF_SEED")
        .ok()
        .and_then(|s| s.trim().parse::<i128>().ok())
        .map(|v| v as u64)
        .unwrap_or(0);
    let scale = std::env::var("VERIF_SCALE")
        .ok()
        .and_then(|s| s.parse::<f64>().ok())
        .unwrap_or(1.0);
    let verif_dir = std::env::var("VERIF_DIR").map(PathBuf::from).unwrap_or_else(|_| PathBuf::from("/verif"));
    let out_dir = std::env::var("VERIF_OUT_DIR").map(PathBuf::from).unwrap_or_else(|_| verif_dir.clone());
    let ctx = Ctx {
        prop: id,
        tier,
        seed,
        verif_dir,
        out_dir,
        scale,
    };
    // watchdog: a wall-clock overrun is inconclusive (exit 2), never a violation
    let budget_s: u64 = std::env::var("VERIF_WALL_S")
        .ok()
        .and_then(|s| s.parse().ok())
        .unwrap_or(match tier {
            Tier::Quick => 1500,
            Tier::Thorough => 6 * 3600,
        });
    // stuck-case monitor: a watched case that does not return is written out and reported as
    // inconclusive (exit 2) - a deterministic hang is then examined through its replay file
    {
        let out = ctx.out_dir.clone();
        let prop = ctx.prop.clone();
        std::thread::spawn(move || loop {
            std::thread::sleep(std::time::Duration::from_millis(500));
            let limit = engine::WATCH_S.load(std::sync::atomic::Ordering::Relaxed);
            if limit == 0 {
                continue;
            }
            let g = engine::IN_FLIGHT.lock().unwrap();
            for slot in g.iter().flatten() {
                if slot.0.elapsed().as_secs() >= limit {
                    let dir = out.join("replays");
                    let _ = std::fs::create_dir_all(&dir);
                    let path = dir.join(format!("{prop}-stuck-{:016x}.json", engine::hash64(&slot.1)));
                    let body = format!("{{\"property\": \"{prop}\", \"sub\": \"stuck\", \"sig\": \"stuck\", \"msg\": \"case did not return within {limit} s\", \"case\": {}}}", slot.1);
                    let _ = std::fs::write(&path, body);
                    if let Ok(p) = engine::PROGRESS.try_lock() {
                        for (id, note) in p.iter() {
                            eprintln!("  progress of {id:?}: {note}");
                        }
                    }
                    eprintln!("INCONCLUSIVE: a case did not return within {limit} s; written to {}", path.display());
                    std::process::exit(2);
                }
            }
        });
    }
    std::thread::spawn(move || {
        std::thread::sleep(std::time::Duration::from_secs(budget_s));
        eprintln!("INCONCLUSIVE: wall-clock budget of {budget_s}s exceeded");
        std::process::exit(2);
    });
    std::process::exit(engine::run_property(&ctx, &pc, only_sub.as_deref()));
}
