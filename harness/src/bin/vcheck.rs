//! CLI: vcheck <ID> <quick|thorough> | vcheck <ID> --replay <file> | vcheck --list
use std::path::PathBuf;
use trippy_verif::engine::{self, Ctx, Tier};

trippy_verif::interpose_clock!();

fn main() {
    let args: Vec<String> = std::env::args().skip(1).collect();
    engine::install_panic_hook();
    if let Err(e) = trippy_verif::vclock::self_test() {
        eprintln!("INCONCLUSIVE: {e}");
        std::process::exit(2);
    }
    if args.first().map(String::as_str) == Some("--list") {
        for p in trippy_verif::props::all() {
            println!("{}", p.id);
        }
        return;
    }
    if args.first().map(String::as_str) == Some("--dump") {
        let s = std::fs::read_to_string(&args[1]).expect("read");
        let v: serde_json::Value = serde_json::from_str(&s).expect("json");
        let case: trippy_verif::props::SimCase = serde_json::from_value(v["case"].clone()).expect("case");
        let log = trippy_verif::simnet::run_trace(&case.cfg, &case.world);
        trippy_verif::simnet::run::dump(&log);
        return;
    }
    if args.first().map(String::as_str) == Some("--layout-probe") {
        // vcheck --layout-probe <fixed columns of Min(7)> <width> <iterations> [host]
        use ratatui::layout::{Constraint, Flex, Layout, Rect};
        let n: usize = args[1].parse().unwrap();
        let width: u16 = args[2].parse().unwrap();
        let iters: u16 = args[3].parse().unwrap();
        let host = args.get(4).is_some();
        let fixed_total: u16 = 4 + 7 * n as u16;
        let mut c = vec![Constraint::Min(4)];
        if host {
            c.push(Constraint::Min(width.saturating_sub(fixed_total)));
        }
        c.extend(std::iter::repeat(Constraint::Min(7)).take(n));
        for y in 0..iters {
            let _ = Layout::horizontal(c.clone()).flex(Flex::Start).spacing(1).split(Rect::new(0, y, width, 1));
        }
        println!("ok");
        return;
    }
    if args.first().map(String::as_str) == Some("--gen-corpus") {
        let dir = std::path::PathBuf::from(&args[1]);
        std::fs::create_dir_all(&dir).expect("mkdir");
        for (i, b) in trippy_verif::props::c04::fuzz_corpus().iter().enumerate() {
            std::fs::write(dir.join(format!("seed-{i:04}")), b).expect("write");
        }
        return;
    }
    if args.len() < 2 {
        eprintln!("usage: vcheck <ID> <quick|thorough> [--sub <name>] | vcheck <ID> --replay <file>");
        std::process::exit(2);
    }
    let id = args[0].clone();
    let Some(pc) = trippy_verif::props::by_id(&id) else {
        eprintln!("unknown property {id}");
        std::process::exit(2);
    };
    if args[1] == "--replay" {
        let Some(path) = args.get(2) else {
            eprintln!("--replay needs a file");
            std::process::exit(2);
        };
        if pc.id == "C04" {
            if let Some(r) = trippy_verif::props::c04::replay_raw(path) {
                match r {
                    Ok(()) => {
                        println!("C04 replay {path}: passes");
                        std::process::exit(0);
                    }
                    Err(f) => {
                        println!("  failing oracle [libfuzzer] {}: {}", f.sig, f.msg);
                        println!("VIOLATION property=C04 replay={path}");
                        std::process::exit(1);
                    }
                }
            }
        }
        std::process::exit(engine::replay_file(&pc, path));
    }
    let tier = match args[1].as_str() {
        "quick" => Tier::Quick,
        "thorough" => Tier::Thorough,
        other => {
            eprintln!("unknown tier {other}");
            std::process::exit(2);
        }
    };
    let only_sub = args
        .iter()
        .position(|a| a == "--sub")
        .and_then(|i| args.get(i + 1))
        .cloned();
    let seed = std::env::var("VERIF_SEED")
        .ok()
        .and_then(|s| s.trim().parse::<i128>().ok())
        .map(|v| v as u64)
        .unwrap_or(0);
    let scale = std::env::var("VERIF_SCALE")
        .ok()
        .and_then(|s| s.parse::<f64>().ok())
        .unwrap_or(1.0);
    let verif_dir = std::env::var("VERIF_DIR").map(PathBuf::from).unwrap_or_else(|_| PathBuf::from("/verif"));
    let out_dir = std::env::var("VERIF_OUT_DIR").map(PathBuf::from).unwrap_or_else(|_| verif_dir.clone());
    let ctx = Ctx {
        prop: id,
        tier,
        seed,
        verif_dir,
        out_dir,
        scale,
    };
    // watchdog: a wall-clock overrun is inconclusive (exit 2), never a violation
    let budget_s: u64 = std::env::var("VERIF_WALL_S")
        .ok()
        .and_then(|s| s.parse().ok())
        .unwrap_or(match tier {
            Tier::Quick => 1500,
            Tier::Thorough => 6 * 3600,
        });
    // stuck-case monitor: a watched case that does not return is written out and reported as
    // inconclusive (exit 2) - a deterministic hang is then examined through its replay file
    {
        let out = ctx.out_dir.clone();
        let prop = ctx.prop.clone();
        std::thread::spawn(move || loop {
            std::thread::sleep(std::time::Duration::from_millis(500));
            let limit = engine::WATCH_S.load(std::sync::atomic::Ordering::Relaxed);
            if limit == 0 {
                continue;
            }
            let g = engine::IN_FLIGHT.lock().unwrap();
            for slot in g.iter().flatten() {
                if slot.0.elapsed().as_secs() >= limit {
                    let dir = out.join("replays");
                    let _ = std::fs::create_dir_all(&dir);
                    let path = dir.join(format!("{prop}-stuck-{:016x}.json", engine::hash64(&slot.1)));
                    let body = format!("{{\"property\": \"{prop}\", \"sub\": \"stuck\", \"sig\": \"stuck\", \"msg\": \"case did not return within {limit} s\", \"case\": {}}}", slot.1);
                    let _ = std::fs::write(&path, body);
                    eprintln!("INCONCLUSIVE: a case did not return within {limit} s; written to {}", path.display());
                    std::process::exit(2);
                }
            }
        });
    }
    std::thread::spawn(move || {
        std::thread::sleep(std::time::Duration::from_secs(budget_s));
        eprintln!("INCONCLUSIVE: wall-clock budget of {budget_s}s exceeded");
        std::process::exit(2);
    });
    std::process::exit(engine::run_property(&ctx, &pc, only_sub.as_deref()));
}
