//! Ground-truth analysis of a simulated run: what each probe's outcome must be, and the small
//! bookkeeping model (target distance / farthest hop / last response) fed with genuine first
//! responses only.  Nothing here re-implements the tracer's loop.

use crate::simnet::world::wire_sequence;
use crate::simnet::*;
use std::net::IpAddr;
use trippy_core::{IcmpPacketType, ProbeStatus};

#[derive(Clone, Debug, PartialEq, Eq)]
pub enum Expected {
    Complete {
        ttl: u8,
        host: IpAddr,
        kind: RespKind,
        sent_ns: u64,
        recv_ns: u64,
        /// did the response come from the target address, or was it an echo reply / TCP answer
        target: bool,
        ext: Option<crate::wire::ExtStructure>,
        quoted_udp_cksum: Option<u16>,
        quoted_tos: Option<u8>,
        sent_udp_cksum: Option<u16>,
    },
    Awaited { ttl: u8, sent_ns: u64 },
    Failed { sent_ns: u64 },
    Skipped,
}

impl Expected {
    pub fn short(&self) -> String {
        match self {
            Expected::Complete { ttl, host, kind, .. } => format!("C{ttl}:{host}:{kind:?}"),
            Expected::Awaited { ttl, .. } => format!("A{ttl}"),
            Expected::Failed { .. } => "F".into(),
            Expected::Skipped => "S".into(),
        }
    }
}

pub fn status_short(p: &ProbeStatus) -> String {
    match p {
        ProbeStatus::Complete(c) => format!("C{}:{}:{:?}", c.ttl.0, c.host, c.icmp_packet_type),
        ProbeStatus::Awaited(a) => format!("A{}", a.ttl.0),
        ProbeStatus::Failed(_) => "F".into(),
        ProbeStatus::Skipped => "S".into(),
        ProbeStatus::NotSent => "N".into(),
    }
}

/// Which errno at which stage is a transient ("probe failed") error for this configuration.
/// Tabulated from the `ErrorMapper::probe_failed` call sites in net/ipv4.rs and net/ipv6.rs.
pub fn is_transient(cfg: &TraceCfg, stage: Stage, errno: i32) -> bool {
    if cfg.v6 {
        return false;
    }
    match (cfg.protocol, cfg.privileged, stage) {
        (Proto::Icmp, _, Stage::SendTo) => {
            errno == libc::EHOSTUNREACH || errno == libc::ENETUNREACH || errno == libc::EINVAL
        }
        (Proto::Udp, true, Stage::SendTo) => errno == libc::EHOSTUNREACH || errno == libc::ENETUNREACH,
        (Proto::Udp, false, Stage::Bind) => errno == libc::EADDRNOTAVAIL,
        (Proto::Tcp, _, Stage::Bind) => errno == libc::EADDRNOTAVAIL,
        (Proto::Tcp, _, Stage::Connect) => errno == libc::ENETUNREACH,
        _ => false,
    }
}

/// TCP: address-in-use at bind/connect re-issues the probe (the slot is reported skipped).
pub fn is_reissue(cfg: &TraceCfg, stage: Stage, errno: i32) -> bool {
    cfg.protocol == Proto::Tcp && errno == libc::EADDRINUSE && matches!(stage, Stage::Bind | Stage::Connect)
}

pub fn kind_matches(k: &RespKind, t: IcmpPacketType) -> bool {
    match (k, t) {
        (RespKind::TimeExceeded(a), IcmpPacketType::TimeExceeded(b)) => *a == b.0,
        (RespKind::Unreachable(a), IcmpPacketType::Unreachable(b)) => *a == b.0,
        (RespKind::EchoReply(a), IcmpPacketType::EchoReply(b)) => *a == b.0,
        (RespKind::TcpConnected | RespKind::TcpRefused, IcmpPacketType::NotApplicable) => true,
        _ => false,
    }
}

pub struct Truth {
    /// expected outcomes per published round, in send order
    pub rounds: Vec<Vec<Expected>>,
    /// indices into `log.sends` per published round
    pub round_sends: Vec<Vec<usize>>,
    /// junk packets read while a round with awaited probes was open, by label
    pub junk_read: Vec<(usize, String)>,
    /// duplicates (second and later genuine responses) read
    pub dup_read: usize,
    /// genuine responses read after their round was published
    pub late_read: usize,
    /// a response was read between two sends of the same round
    pub interleaved: bool,
}

pub enum TruthError {
    /// the case cannot be judged (counted as excluded, not as a violation)
    Excluded(String),
}

/// Do two probes agree in every identity field other than the sequence (ports that do not
/// carry the sequence)?  Paris/Dublin use a per-round port, so probes of different rounds that
/// share a sequence number may still be told apart by it.
fn identity_matches(_cfg: &TraceCfg, a: &SendRec, b: &SendRec) -> bool {
    // The tracer validates the fixed port(s), the destination address and (ICMP) the trace
    // identifier only; the per-round port of Paris / Dublin is not checked.  All probes of one
    // run share those, so two probes with the same sequence are indistinguishable to it.
    a.wire.is_some() && b.wire.is_some()
}

/// Derive the ground truth from the event log.
pub fn truth(log: &RunLog) -> Result<Truth, TruthError> {
    let cfg = &log.cfg;
    let n_rounds = log.rounds.len();
    let mut round_sends: Vec<Vec<usize>> = vec![vec![]; n_rounds + 1];
    for s in &log.sends {
        if s.round < round_sends.len() {
            round_sends[s.round].push(s.idx);
        }
    }
    // first genuine read per send, with the number of publishes that preceded it
    let mut first_read: Vec<Option<(u64, IpAddr, RespKind, usize, PktMeta)>> = vec![None; log.sends.len()];
    let mut publishes = 0usize;
    let mut junk_read = vec![];
    let mut dup_read = 0usize;
    let mut late_read = 0usize;
    let mut interleaved = false;
    let mut last_was_read_in_round = false;
    for ev in &log.events {
        match ev {
            Event::Publish(_) => {
                publishes += 1;
                last_was_read_in_round = false;
            }
            Event::Send(_) => {
                if last_was_read_in_round {
                    interleaved = true;
                }
            }
            Event::Read { t_ns, meta } => {
                match (&meta.class, meta.answers) {
                    (PktClass::Genuine, Some(j)) => {
                        let s = &log.sends[j];
                        if s.round != publishes {
                            late_read += 1;
                            // A stale response whose sequence number has been re-issued in the
                            // round in progress cannot be told from a genuine one.  The tracer
                            // only promises to reject responses of the immediately preceding
                            // round; aliasing with it (possible for TCP rounds that burn more
                            // than 254 sequence numbers) is C07's subject and excluded here.
                            let q = s.wire.as_ref().and_then(|w| wire_sequence(cfg, w));
                            let aliased = q.is_some()
                                && log.sends.iter().any(|x| {
                                    x.round == publishes
                                        && x.wire.as_ref().and_then(|w| wire_sequence(cfg, w)) == q
                                        && identity_matches(cfg, x, s)
                                });
                            let gap = publishes.saturating_sub(s.round);
                            // One round late: the tracer promises to reject it.  Only the
                            // recorded C07 finding (TCP rounds burning > 254 sequences) is
                            // excluded; for ICMP / UDP the outcome oracle judges it.
                            if aliased && (gap >= 2 || cfg.protocol == Proto::Tcp) {
                                return Err(TruthError::Excluded(if gap >= 2 {
                                    "response two or more rounds late names a re-issued sequence".into()
                                } else {
                                    "previous-round response names a re-issued sequence (TCP: recorded C07 finding)".into()
                                }));
                            }
                        }
                        if first_read[j].is_none() {
                            first_read[j] = Some((*t_ns, meta.from, meta.kind.clone(), publishes, meta.clone()));
                            if s.round == publishes {
                                last_was_read_in_round = true;
                            }
                        } else {
                            dup_read += 1;
                        }
                    }
                    (PktClass::Junk(label), _) => {
                        // a forged packet naming a sequence this tracer has on the wire in the
                        // current round is indistinguishable from a genuine response
                        if let Some(q) = meta.names_seq {
                            let aliased = log.sends.iter().any(|s| {
                                s.round == publishes
                                    && s.wire.as_ref().and_then(|w| wire_sequence(cfg, w)) == Some(q)
                            });
                            if aliased {
                                return Err(TruthError::Excluded("forged packet names a sequence on the wire".into()));
                            }
                        }
                        junk_read.push((publishes, label.clone()));
                    }
                    _ => {}
                }
            }
            Event::TcpObserved { t_ns, send_idx, kind, from } => {
                let s = &log.sends[*send_idx];
                if s.round != publishes {
                    late_read += 1;
                    let q = s.wire.as_ref().and_then(|w| wire_sequence(cfg, w));
                    let aliased = q.is_some()
                        && log.sends.iter().any(|x| x.round == publishes && x.wire.as_ref().and_then(|w| wire_sequence(cfg, w)) == q);
                    if aliased {
                        return Err(TruthError::Excluded("stale TCP connect names a re-issued sequence (C07 domain)".into()));
                    }
                }
                if first_read[*send_idx].is_none() {
                    let meta = PktMeta {
                        class: PktClass::Genuine,
                        answers: Some(*send_idx),
                        from: *from,
                        kind: kind.clone(),
                        quoted_udp_cksum: None,
                        quoted_tos: None,
                        ext: None,
                        len: 0,
                        names_seq: None,
                    };
                    first_read[*send_idx] = Some((*t_ns, *from, kind.clone(), publishes, meta));
                    if s.round == publishes {
                        last_was_read_in_round = true;
                    }
                } else {
                    dup_read += 1;
                }
            }
            _ => {}
        }
    }
    let target = cfg.target_addr();
    let mut rounds = vec![];
    for k in 0..n_rounds {
        let mut v = vec![];
        for &i in &round_sends[k] {
            let s = &log.sends[i];
            let e = if let Some((stage, errno)) = s.failed {
                if is_reissue(cfg, stage, errno) {
                    Expected::Skipped
                } else if is_transient(cfg, stage, errno) {
                    Expected::Failed { sent_ns: s.t_ns }
                } else {
                    // a fatal error: the round cannot have been published
                    return Err(TruthError::Excluded(format!(
                        "fatal send error in a published round (stage {stage:?} errno {errno})"
                    )));
                }
            } else {
                let Some(w) = &s.wire else {
                    return Err(TruthError::Excluded("send never reached the wire".into()));
                };
                match &first_read[i] {
                    Some((t, from, kind, pubs, meta)) if *pubs == k => Expected::Complete {
                        ttl: w.ttl,
                        host: *from,
                        kind: kind.clone(),
                        sent_ns: s.t_ns,
                        recv_ns: *t,
                        target: *from == target
                            || matches!(kind, RespKind::EchoReply(_) | RespKind::TcpConnected | RespKind::TcpRefused),
                        ext: meta.ext.clone(),
                        quoted_udp_cksum: meta.quoted_udp_cksum,
                        quoted_tos: meta.quoted_tos,
                        sent_udp_cksum: match &w.l4 {
                            crate::wire::L4::Udp { cksum, .. } => Some(*cksum),
                            _ => None,
                        },
                    },
                    _ => Expected::Awaited { ttl: w.ttl, sent_ns: s.t_ns },
                }
            };
            v.push(e);
        }
        rounds.push(v);
    }
    round_sends.truncate(n_rounds);
    Ok(Truth {
        rounds,
        round_sends,
        junk_read,
        dup_read,
        late_read,
        interleaved,
    })
}

/// Compare one published probe status with its expected outcome.
pub fn compare_status(round: usize, pos: usize, got: &ProbeStatus, exp: &Expected) -> Result<(), String> {
    use crate::vclock::systime_to_ns;
    let bad = |what: &str| Err(format!("round {round} probe #{pos}: {what}: expected {} got {}", exp.short(), status_short(got)));
    match (got, exp) {
        (ProbeStatus::Complete(c), Expected::Complete { ttl, host, kind, sent_ns, recv_ns, .. }) => {
            if c.ttl.0 != *ttl {
                return bad("ttl differs");
            }
            if c.host != *host {
                return bad("responder differs");
            }
            if !kind_matches(kind, c.icmp_packet_type) {
                return bad("response kind differs");
            }
            if c.round.0 != round {
                return bad("round id differs");
            }
            let (s, r) = (systime_to_ns(c.sent), systime_to_ns(c.received));
            if s != *sent_ns || r != *recv_ns {
                return Err(format!(
                    "round {round} probe #{pos} ttl {ttl}: rtt differs: expected sent {sent_ns} recv {recv_ns} (rtt {}), got sent {s} recv {r} (rtt {})",
                    recv_ns.wrapping_sub(*sent_ns),
                    r.wrapping_sub(s)
                ));
            }
            Ok(())
        }
        (ProbeStatus::Awaited(a), Expected::Awaited { ttl, sent_ns }) => {
            if a.ttl.0 != *ttl {
                return bad("ttl differs");
            }
            if a.round.0 != round {
                return bad("round id differs");
            }
            if systime_to_ns(a.sent) != *sent_ns {
                return bad("sent time differs");
            }
            Ok(())
        }
        (ProbeStatus::Failed(f), Expected::Failed { .. }) => {
            if f.round.0 != round {
                return bad("round id differs");
            }
            Ok(())
        }
        (ProbeStatus::Skipped, Expected::Skipped) => Ok(()),
        _ => bad("status differs"),
    }
}

// ---------------------------------------------------------------------------------------------
// Bookkeeping model

/// Target-distance bookkeeping as the property statements describe it, fed with genuine first
/// responses in the order the tracer read them.
#[derive(Clone, Debug, Default)]
pub struct Book {
    /// established target distance (lowest TTL a target answer was seen for), if any
    pub target_ttl: Option<u8>,
    // per round
    pub max_received: Option<u8>,
    pub target_found: bool,
    pub last_recv_ns: Option<u64>,
}

impl Book {
    pub fn new_round(&mut self) {
        self.max_received = None;
        self.target_found = false;
        self.last_recv_ns = None;
    }
    /// A genuine first response for a probe of the round in progress was read.
    pub fn response(&mut self, ttl: u8, from_target: bool, t_ns: u64) {
        if from_target {
            self.target_ttl = Some(match self.target_ttl {
                None => ttl,
                Some(t) => t.min(ttl),
            });
        } else if let Some(t) = self.target_ttl {
            if ttl >= t {
                self.target_ttl = None;
            }
        }
        self.max_received = Some(self.max_received.map_or(ttl, |m| m.max(ttl)));
        self.last_recv_ns = Some(t_ns);
        self.target_found |= from_target;
    }
}

/// One step of the ordered log, as the scheduling / timing oracles consume it.
#[derive(Clone, Debug)]
pub enum Step {
    Send { idx: usize, ttl: u8, t_ns: u64, round: usize, reissue_of_failed_bind: bool },
    /// first genuine response for a probe of the round in progress
    Resp { idx: usize, ttl: u8, from_target: bool, t_ns: u64 },
    Publish { k: usize, t_ns: u64 },
    /// the end of one loop iteration's receive step: the tracer evaluates the round policy here
    Check { t_ns: u64 },
}

/// Linearise the log into sends, in-round first responses and publishes.
pub fn steps(log: &RunLog) -> Vec<Step> {
    let target = log.cfg.target_addr();
    let mut out = vec![];
    let mut publishes = 0usize;
    let mut seen = vec![false; log.sends.len()];
    let mut prev_failed_reissue = false;
    for ev in &log.events {
        match ev {
            Event::Send(i) => {
                let s = &log.sends[*i];
                let ttl = s.wire.as_ref().map_or(0, |w| w.ttl);
                out.push(Step::Send {
                    idx: *i,
                    ttl,
                    t_ns: s.t_ns,
                    round: s.round,
                    reissue_of_failed_bind: prev_failed_reissue,
                });
                prev_failed_reissue = s.failed.is_some_and(|(st, e)| is_reissue(&log.cfg, st, e));
            }
            Event::Read { t_ns, meta } => {
                if let (PktClass::Genuine, Some(j)) = (&meta.class, meta.answers) {
                    if !seen[j] {
                        seen[j] = true;
                        let s = &log.sends[j];
                        if s.round == publishes {
                            let from_target = meta.from == target || matches!(meta.kind, RespKind::EchoReply(_));
                            out.push(Step::Resp {
                                idx: j,
                                ttl: s.wire.as_ref().map_or(0, |w| w.ttl),
                                from_target,
                                t_ns: *t_ns,
                            });
                        }
                    }
                }
            }
            Event::TcpObserved { t_ns, send_idx, .. } => {
                if !seen[*send_idx] {
                    seen[*send_idx] = true;
                    let s = &log.sends[*send_idx];
                    if s.round == publishes {
                        out.push(Step::Resp {
                            idx: *send_idx,
                            ttl: s.wire.as_ref().map_or(0, |w| w.ttl),
                            from_target: true,
                            t_ns: *t_ns,
                        });
                    }
                }
            }
            Event::Publish(k) => {
                out.push(Step::Publish {
                    k: *k,
                    t_ns: log.rounds[*k].t_ns,
                });
                publishes += 1;
            }
            Event::PollTimeout { t_ns } => out.push(Step::Check { t_ns: *t_ns }),
            Event::Fault { .. } => {}
        }
        if let Event::Read { t_ns, .. } | Event::TcpObserved { t_ns, .. } = ev {
            out.push(Step::Check { t_ns: *t_ns });
        }
    }
    out
}
