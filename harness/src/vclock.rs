//! Virtual wall clock.
//!
//! The harness binary defines `clock_gettime` itself (see `interpose_clock!`), so every
//! `SystemTime::now()` made by trippy on a thread that has switched the virtual clock on sees
//! the per-thread virtual instant instead of the real one.  `Instant` (CLOCK_MONOTONIC) and
//! threads that never enabled the virtual clock keep real time through the raw syscall.

use std::cell::Cell;
use std::time::{Duration, SystemTime, UNIX_EPOCH};

thread_local! {
    static V_ON: Cell<bool> = const { Cell::new(false) };
    static V_NOW_NS: Cell<u64> = const { Cell::new(0) };
    static V_READS: Cell<u64> = const { Cell::new(0) };
}

/// Base of virtual time (2020-01-01T00:00:00Z) so that `duration_since(UNIX_EPOCH)` is sane.
pub const BASE_NS: u64 = 1_577_836_800_000_000_000;

pub fn enable(start_ns: u64) {
    V_NOW_NS.with(|c| c.set(start_ns));
    V_ON.with(|c| c.set(true));
}

pub fn disable() {
    V_ON.with(|c| c.set(false));
}

pub fn is_on() -> bool {
    V_ON.with(Cell::get)
}

pub fn now_ns() -> u64 {
    V_NOW_NS.with(Cell::get)
}

pub fn set_ns(ns: u64) {
    V_NOW_NS.with(|c| c.set(ns));
}

pub fn advance(ns: u64) {
    V_NOW_NS.with(|c| c.set(c.get().saturating_add(ns)));
}

pub fn reads() -> u64 {
    V_READS.with(Cell::get)
}

pub fn ns_to_systime(ns: u64) -> SystemTime {
    UNIX_EPOCH + Duration::from_nanos(ns)
}

pub fn systime_to_ns(t: SystemTime) -> u64 {
    t.duration_since(UNIX_EPOCH)
        .map(|d| d.as_nanos() as u64)
        .unwrap_or(0)
}

/// Called from the interposed `clock_gettime`.  Returns `Some(ns)` when the calling thread is on
/// virtual time and the clock id is the realtime clock.
#[inline]
pub fn intercept(clk: libc::clockid_t) -> Option<u64> {
    if clk != libc::CLOCK_REALTIME {
        return None;
    }
    // `try_with` so that a call during thread teardown falls through to the real clock.
    let on = V_ON.try_with(Cell::get).unwrap_or(false);
    if !on {
        return None;
    }
    let _ = V_READS.try_with(|c| c.set(c.get() + 1));
    V_NOW_NS.try_with(Cell::get).ok()
}

/// Define the interposing `clock_gettime` symbol.  Must be expanded in the *binary* crate.
#[macro_export]
macro_rules! interpose_clock {
    () => {
        #[no_mangle]
        pub unsafe extern "C" fn clock_gettime(
            clk: libc::clockid_t,
            ts: *mut libc::timespec,
        ) -> libc::c_int {
            if let Some(ns) = $crate::vclock::intercept(clk) {
                if !ts.is_null() {
                    (*ts).tv_sec = (ns / 1_000_000_000) as libc::time_t;
                    (*ts).tv_nsec = (ns % 1_000_000_000) as libc::c_long;
                }
                return 0;
            }
            libc::syscall(libc::SYS_clock_gettime, clk as libc::c_long, ts) as libc::c_int
        }
    };
}

/// Self-test: abort (exit 2, inconclusive) if the interposer is not in effect.
pub fn self_test() -> Result<(), String> {
    let real = SystemTime::now();
    enable(BASE_NS + 5_000_000_000);
    let v = SystemTime::now();
    advance(1_234);
    let v2 = SystemTime::now();
    disable();
    let real2 = SystemTime::now();
    if systime_to_ns(v) != BASE_NS + 5_000_000_000 || systime_to_ns(v2) != BASE_NS + 5_000_001_234 {
        return Err(format!(
            "virtual clock not in effect: got {:?} / {:?}",
            systime_to_ns(v),
            systime_to_ns(v2)
        ));
    }
    if real2 < real {
        return Err("real clock went backwards after disabling the virtual clock".into());
    }
    Ok(())
}
