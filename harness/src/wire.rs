//! Independent wire codec used as oracle.  Written from RFC 791 / 8200 / 792 / 4443 / 768 /
//! 9293 / 1071 / 4884 / 4950.  Nothing in this file uses trippy-packet.

use serde::{Deserialize, Serialize};
use std::net::{IpAddr, Ipv4Addr, Ipv6Addr};

pub const PROTO_ICMP: u8 = 1;
pub const PROTO_TCP: u8 = 6;
pub const PROTO_UDP: u8 = 17;
pub const PROTO_ICMPV6: u8 = 58;

// ---------------------------------------------------------------- RFC 1071

/// One's-complement sum of big-endian 16-bit words (odd trailing byte padded with zero).
pub fn ones_sum(chunks: &[&[u8]]) -> u16 {
    let mut sum: u64 = 0;
    // chunks are concatenated logically; keep track of byte parity across chunks
    let mut odd: Option<u8> = None;
    for c in chunks {
        for &b in *c {
            match odd.take() {
                None => odd = Some(b),
                Some(hi) => sum += u64::from(u16::from_be_bytes([hi, b])),
            }
        }
    }
    if let Some(hi) = odd {
        sum += u64::from(u16::from_be_bytes([hi, 0]));
    }
    while sum >> 16 != 0 {
        sum = (sum & 0xffff) + (sum >> 16);
    }
    sum as u16
}

/// RFC 1071 checksum (complement of the one's-complement sum).
pub fn checksum(chunks: &[&[u8]]) -> u16 {
    !ones_sum(chunks)
}

pub fn pseudo4(src: Ipv4Addr, dst: Ipv4Addr, proto: u8, len: u16) -> [u8; 12] {
    let mut p = [0u8; 12];
    p[0..4].copy_from_slice(&src.octets());
    p[4..8].copy_from_slice(&dst.octets());
    p[8] = 0;
    p[9] = proto;
    p[10..12].copy_from_slice(&len.to_be_bytes());
    p
}

pub fn pseudo6(src: Ipv6Addr, dst: Ipv6Addr, next: u8, len: u32) -> [u8; 40] {
    let mut p = [0u8; 40];
    p[0..16].copy_from_slice(&src.octets());
    p[16..32].copy_from_slice(&dst.octets());
    p[32..36].copy_from_slice(&len.to_be_bytes());
    p[39] = next;
    p
}

/// Does `data` (with its checksum field in place) verify, i.e. sum to 0xFFFF?
pub fn verifies(chunks: &[&[u8]]) -> bool {
    ones_sum(chunks) == 0xffff
}

/// Transport checksum with the checksum field (at `ck_off`) taken as zero.
pub fn transport_checksum(pseudo: &[u8], seg: &[u8], ck_off: usize) -> u16 {
    let mut s = seg.to_vec();
    if s.len() >= ck_off + 2 {
        s[ck_off] = 0;
        s[ck_off + 1] = 0;
    }
    checksum(&[pseudo, &s])
}

// ---------------------------------------------------------------- IPv4

#[derive(Clone, Debug, PartialEq, Eq, Serialize, Deserialize)]
pub struct Ip4 {
    pub ihl: u8,
    pub tos: u8,
    pub total_len: u16,
    pub id: u16,
    pub flags_frag: u16,
    pub ttl: u8,
    pub proto: u8,
    pub cksum: u16,
    pub src: Ipv4Addr,
    pub dst: Ipv4Addr,
    pub options: Vec<u8>,
}

pub fn parse_ip4(b: &[u8]) -> Result<(Ip4, &[u8]), String> {
    if b.len() < 20 {
        return Err(format!("ipv4: {} bytes < 20", b.len()));
    }
    if b[0] >> 4 != 4 {
        return Err(format!("ipv4: version {}", b[0] >> 4));
    }
    let ihl = b[0] & 0xf;
    let hl = usize::from(ihl) * 4;
    if hl < 20 || hl > b.len() {
        return Err(format!("ipv4: ihl {ihl} with {} bytes", b.len()));
    }
    let h = Ip4 {
        ihl,
        tos: b[1],
        total_len: u16::from_be_bytes([b[2], b[3]]),
        id: u16::from_be_bytes([b[4], b[5]]),
        flags_frag: u16::from_be_bytes([b[6], b[7]]),
        ttl: b[8],
        proto: b[9],
        cksum: u16::from_be_bytes([b[10], b[11]]),
        src: Ipv4Addr::new(b[12], b[13], b[14], b[15]),
        dst: Ipv4Addr::new(b[16], b[17], b[18], b[19]),
        options: b[20..hl].to_vec(),
    };
    Ok((h, &b[hl..]))
}

/// Build an IPv4 datagram.  `options` must be a multiple of 4 octets.  The header checksum is
/// computed unless `cksum_override` is given.
#[allow(clippy::too_many_arguments)]
pub fn build_ip4(
    tos: u8,
    id: u16,
    flags_frag: u16,
    ttl: u8,
    proto: u8,
    src: Ipv4Addr,
    dst: Ipv4Addr,
    options: &[u8],
    payload: &[u8],
    total_len_override: Option<u16>,
) -> Vec<u8> {
    assert!(options.len() % 4 == 0 && options.len() <= 40);
    let hl = 20 + options.len();
    let mut v = vec![0u8; hl + payload.len()];
    v[0] = 0x40 | (hl / 4) as u8;
    v[1] = tos;
    let tl = total_len_override.unwrap_or((hl + payload.len()) as u16);
    v[2..4].copy_from_slice(&tl.to_be_bytes());
    v[4..6].copy_from_slice(&id.to_be_bytes());
    v[6..8].copy_from_slice(&flags_frag.to_be_bytes());
    v[8] = ttl;
    v[9] = proto;
    v[12..16].copy_from_slice(&src.octets());
    v[16..20].copy_from_slice(&dst.octets());
    v[20..hl].copy_from_slice(options);
    let ck = checksum(&[&v[..hl]]);
    v[10..12].copy_from_slice(&ck.to_be_bytes());
    v[hl..].copy_from_slice(payload);
    v
}

// ---------------------------------------------------------------- IPv6

#[derive(Clone, Debug, PartialEq, Eq, Serialize, Deserialize)]
pub struct Ip6 {
    pub tclass: u8,
    pub flow: u32,
    pub payload_len: u16,
    pub next: u8,
    pub hop_limit: u8,
    pub src: Ipv6Addr,
    pub dst: Ipv6Addr,
}

pub fn build_ip6(h: &Ip6, payload: &[u8]) -> Vec<u8> {
    let mut v = vec![0u8; 40 + payload.len()];
    let w: u32 = (6u32 << 28) | (u32::from(h.tclass) << 20) | (h.flow & 0xf_ffff);
    v[0..4].copy_from_slice(&w.to_be_bytes());
    v[4..6].copy_from_slice(&h.payload_len.to_be_bytes());
    v[6] = h.next;
    v[7] = h.hop_limit;
    v[8..24].copy_from_slice(&h.src.octets());
    v[24..40].copy_from_slice(&h.dst.octets());
    v[40..].copy_from_slice(payload);
    v
}

pub fn parse_ip6(b: &[u8]) -> Result<(Ip6, &[u8]), String> {
    if b.len() < 40 {
        return Err(format!("ipv6: {} bytes < 40", b.len()));
    }
    let w = u32::from_be_bytes([b[0], b[1], b[2], b[3]]);
    if w >> 28 != 6 {
        return Err(format!("ipv6: version {}", w >> 28));
    }
    let mut s = [0u8; 16];
    s.copy_from_slice(&b[8..24]);
    let mut d = [0u8; 16];
    d.copy_from_slice(&b[24..40]);
    Ok((
        Ip6 {
            tclass: ((w >> 20) & 0xff) as u8,
            flow: w & 0xf_ffff,
            payload_len: u16::from_be_bytes([b[4], b[5]]),
            next: b[6],
            hop_limit: b[7],
            src: Ipv6Addr::from(s),
            dst: Ipv6Addr::from(d),
        },
        &b[40..],
    ))
}

// ---------------------------------------------------------------- UDP / TCP / ICMP echo

#[derive(Clone, Debug, PartialEq, Eq, Serialize, Deserialize)]
pub struct Udp {
    pub sport: u16,
    pub dport: u16,
    pub len: u16,
    pub cksum: u16,
}

pub fn parse_udp(b: &[u8]) -> Result<(Udp, &[u8]), String> {
    if b.len() < 8 {
        return Err(format!("udp: {} bytes < 8", b.len()));
    }
    Ok((
        Udp {
            sport: u16::from_be_bytes([b[0], b[1]]),
            dport: u16::from_be_bytes([b[2], b[3]]),
            len: u16::from_be_bytes([b[4], b[5]]),
            cksum: u16::from_be_bytes([b[6], b[7]]),
        },
        &b[8..],
    ))
}

/// Build a UDP datagram; `cksum = None` computes it over `pseudo`.
pub fn build_udp(sport: u16, dport: u16, payload: &[u8], pseudo: &[u8], cksum: Option<u16>) -> Vec<u8> {
    let mut v = vec![0u8; 8 + payload.len()];
    v[0..2].copy_from_slice(&sport.to_be_bytes());
    v[2..4].copy_from_slice(&dport.to_be_bytes());
    v[4..6].copy_from_slice(&((8 + payload.len()) as u16).to_be_bytes());
    v[8..].copy_from_slice(payload);
    let ck = cksum.unwrap_or_else(|| checksum(&[pseudo, &v]));
    v[6..8].copy_from_slice(&ck.to_be_bytes());
    v
}

/// A 20-octet TCP SYN header.
pub fn build_tcp_syn(sport: u16, dport: u16, seq: u32, pseudo: &[u8]) -> Vec<u8> {
    let mut v = vec![0u8; 20];
    v[0..2].copy_from_slice(&sport.to_be_bytes());
    v[2..4].copy_from_slice(&dport.to_be_bytes());
    v[4..8].copy_from_slice(&seq.to_be_bytes());
    v[12] = 5 << 4;
    v[13] = 0x02;
    v[14..16].copy_from_slice(&64240u16.to_be_bytes());
    let ck = checksum(&[pseudo, &v]);
    v[16..18].copy_from_slice(&ck.to_be_bytes());
    v
}

#[derive(Clone, Debug, PartialEq, Eq, Serialize, Deserialize)]
pub struct Echo {
    pub ty: u8,
    pub code: u8,
    pub cksum: u16,
    pub id: u16,
    pub seq: u16,
}

pub fn parse_echo(b: &[u8]) -> Result<(Echo, &[u8]), String> {
    if b.len() < 8 {
        return Err(format!("icmp: {} bytes < 8", b.len()));
    }
    Ok((
        Echo {
            ty: b[0],
            code: b[1],
            cksum: u16::from_be_bytes([b[2], b[3]]),
            id: u16::from_be_bytes([b[4], b[5]]),
            seq: u16::from_be_bytes([b[6], b[7]]),
        },
        &b[8..],
    ))
}

/// Build an ICMP message: type, code, 4 "rest of header" octets, body.  `pseudo` is empty for
/// ICMPv4 and the IPv6 pseudo-header for ICMPv6.
pub fn build_icmp(ty: u8, code: u8, rest: [u8; 4], body: &[u8], pseudo: &[u8]) -> Vec<u8> {
    let mut v = vec![0u8; 8 + body.len()];
    v[0] = ty;
    v[1] = code;
    v[4..8].copy_from_slice(&rest);
    v[8..].copy_from_slice(body);
    let ck = checksum(&[pseudo, &v]);
    v[2..4].copy_from_slice(&ck.to_be_bytes());
    v
}

// ---------------------------------------------------------------- RFC 4884 / 4950

#[derive(Clone, Debug, PartialEq, Eq, Hash, Serialize, Deserialize)]
pub struct MplsMember {
    pub label: u32,
    pub exp: u8,
    pub bos: u8,
    pub ttl: u8,
}

#[derive(Clone, Debug, PartialEq, Eq, Hash, Serialize, Deserialize)]
pub enum ExtObject {
    /// class 1, c-type 1
    Mpls(Vec<MplsMember>),
    /// any other class
    Other { class: u8, ctype: u8, data: Vec<u8> },
}

#[derive(Clone, Debug, PartialEq, Eq, Hash, Serialize, Deserialize)]
pub struct ExtStructure {
    pub version: u8,
    pub objects: Vec<ExtObject>,
}

pub fn encode_mpls_member(m: &MplsMember) -> [u8; 4] {
    let w: u32 = ((m.label & 0xf_ffff) << 12)
        | (u32::from(m.exp & 7) << 9)
        | (u32::from(m.bos & 1) << 8)
        | u32::from(m.ttl);
    w.to_be_bytes()
}

pub fn encode_ext(e: &ExtStructure) -> Vec<u8> {
    let mut v = vec![e.version << 4, 0, 0, 0];
    for o in &e.objects {
        let (class, ctype, data): (u8, u8, Vec<u8>) = match o {
            ExtObject::Mpls(ms) => (
                1,
                1,
                ms.iter().flat_map(|m| encode_mpls_member(m).to_vec()).collect(),
            ),
            ExtObject::Other { class, ctype, data } => (*class, *ctype, data.clone()),
        };
        v.extend_from_slice(&((4 + data.len()) as u16).to_be_bytes());
        v.push(class);
        v.push(ctype);
        v.extend_from_slice(&data);
    }
    let ck = checksum(&[&v]);
    v[2..4].copy_from_slice(&ck.to_be_bytes());
    v
}

#[derive(Clone, Copy, Debug, PartialEq, Eq, Hash, Serialize, Deserialize)]
pub enum ExtStyle {
    /// RFC 4884 compliant: length attribute set to the padded original datagram length.
    Compliant,
    /// Legacy: length attribute zero, original datagram padded to exactly 128 octets.
    Legacy,
    /// Seen in the field and handled by trippy explicitly: the original datagram field is padded
    /// to 128 octets but the length attribute describes the datagram itself (rounded up to the
    /// unit), so the receiver trims the padding.  Same as `Compliant` from 128 octets upward.
    ShortLength,
}

/// Build the body (after the 8-octet ICMP header) and the length attribute of an ICMP error
/// message carrying `quoted` and optionally an extension structure.
///
/// `unit` is 4 for ICMPv4 and 8 for ICMPv6.  With an extension the original datagram is
/// zero-padded to at least 128 octets and to a multiple of `unit` (RFC 4884 section 4).
/// Without an extension, `set_len_without_ext` decides whether a (compliant) sender fills the
/// length attribute anyway (then `quoted` is zero padded to a multiple of `unit`).
pub fn build_error_body(
    quoted: &[u8],
    ext: Option<(&[u8], ExtStyle)>,
    unit: usize,
    set_len_without_ext: bool,
) -> (Vec<u8>, u8) {
    match ext {
        Some((ext_bytes, style)) => {
            let mut body = quoted.to_vec();
            match style {
                ExtStyle::Compliant => {
                    let mut l = body.len().max(128);
                    if l % unit != 0 {
                        l += unit - l % unit;
                    }
                    body.resize(l, 0);
                    let words = (l / unit) as u8;
                    body.extend_from_slice(ext_bytes);
                    (body, words)
                }
                ExtStyle::ShortLength => {
                    let mut l = body.len();
                    if l % unit != 0 {
                        l += unit - l % unit;
                    }
                    let words = (l / unit) as u8;
                    body.resize(l.max(128), 0);
                    body.extend_from_slice(ext_bytes);
                    (body, words)
                }
                ExtStyle::Legacy => {
                    // legacy implementations always place the extension at octet 128
                    body.truncate(128);
                    body.resize(128, 0);
                    body.extend_from_slice(ext_bytes);
                    (body, 0)
                }
            }
        }
        None => {
            if set_len_without_ext {
                let mut body = quoted.to_vec();
                if body.len() % unit != 0 {
                    let l = body.len() + unit - body.len() % unit;
                    body.resize(l, 0);
                }
                let words = (body.len() / unit).min(255) as u8;
                (body, words)
            } else {
                (quoted.to_vec(), 0)
            }
        }
    }
}

pub const ICMP4_ECHO_REPLY: u8 = 0;
pub const ICMP4_DEST_UNREACH: u8 = 3;
pub const ICMP4_ECHO_REQUEST: u8 = 8;
pub const ICMP4_TIME_EXCEEDED: u8 = 11;
pub const ICMP6_DEST_UNREACH: u8 = 1;
pub const ICMP6_TIME_EXCEEDED: u8 = 3;
pub const ICMP6_ECHO_REQUEST: u8 = 128;
pub const ICMP6_ECHO_REPLY: u8 = 129;

/// ICMPv4 error message: the length attribute lives in octet 5 (second octet of "rest").
pub fn build_icmp4_error(ty: u8, code: u8, body: &[u8], len_words: u8) -> Vec<u8> {
    build_icmp(ty, code, [0, len_words, 0, 0], body, &[])
}

/// ICMPv6 error message: the length attribute lives in octet 4 (first octet of "rest").
pub fn build_icmp6_error(ty: u8, code: u8, body: &[u8], len_words: u8, src: Ipv6Addr, dst: Ipv6Addr) -> Vec<u8> {
    let pseudo = pseudo6(src, dst, PROTO_ICMPV6, (8 + body.len()) as u32);
    build_icmp(ty, code, [len_words, 0, 0, 0], body, &pseudo)
}

// ---------------------------------------------------------------- decoded probes

/// What the tracer put on the wire, decoded independently.
#[derive(Clone, Debug, PartialEq, Eq, Serialize, Deserialize)]
pub enum L4 {
    IcmpEcho { id: u16, seq: u16, cksum: u16, payload: Vec<u8> },
    Udp { sport: u16, dport: u16, len: u16, cksum: u16, payload: Vec<u8> },
    Tcp { sport: u16, dport: u16 },
}

pub fn ip_pair(src: IpAddr, dst: IpAddr) -> Option<(bool, [u8; 16], [u8; 16])> {
    match (src, dst) {
        (IpAddr::V4(s), IpAddr::V4(d)) => {
            let mut a = [0u8; 16];
            let mut b = [0u8; 16];
            a[..4].copy_from_slice(&s.octets());
            b[..4].copy_from_slice(&d.octets());
            Some((false, a, b))
        }
        (IpAddr::V6(s), IpAddr::V6(d)) => Some((true, s.octets(), d.octets())),
        _ => None,
    }
}

#[cfg(test)]
mod tests {
    use super::*;
    #[test]
    fn rfc1071_example() {
        // RFC 1071 section 3 example: 00 01 f2 03 f4 f5 f6 f7 -> sum ddf2, checksum 220d
        let d = [0x00, 0x01, 0xf2, 0x03, 0xf4, 0xf5, 0xf6, 0xf7];
        assert_eq!(ones_sum(&[&d]), 0xddf2);
        assert_eq!(checksum(&[&d]), 0x220d);
        assert_eq!(ones_sum(&[&d[..3], &d[3..]]), 0xddf2);
    }
    #[test]
    fn ip4_roundtrip() {
        let p = build_ip4(3, 7, 0x4000, 9, 17, Ipv4Addr::new(1, 2, 3, 4), Ipv4Addr::new(5, 6, 7, 8), &[1, 1, 1, 0], &[9; 11], None);
        let (h, pl) = parse_ip4(&p).unwrap();
        assert_eq!(h.ihl, 6);
        assert_eq!(h.total_len, 35);
        assert_eq!(pl, &[9; 11]);
        assert!(verifies(&[&p[..24]]));
    }
}
