//! Deterministic hash seeds on demand.
//!
//! `std::collections::HashMap` seeds its SipHash keys per thread from `getrandom` (first use in a
//! thread) and then counts upwards.  The harness binary defines `getrandom` itself (see
//! `interpose_random!`): a thread that has set an override before creating its first `HashMap`
//! gets keys derived from that override, every other thread gets the kernel's bytes through the
//! raw system call.  This makes "which order does the layout solver iterate its maps in" - the
//! only thing the recorded C17 finding depends on besides the input - a reproducible quantity.

use std::cell::Cell;

thread_local! {
    static OVERRIDE: Cell<Option<u64>> = const { Cell::new(None) };
    static CALLS: Cell<u64> = const { Cell::new(0) };
}

fn splitmix(mut z: u64) -> u64 {
    z = z.wrapping_add(0x9e37_79b9_7f4a_7c15);
    z = (z ^ (z >> 30)).wrapping_mul(0xbf58_476d_1ce4_e5b9);
    z = (z ^ (z >> 27)).wrapping_mul(0x94d0_49bb_1331_11eb);
    z ^ (z >> 31)
}

/// Called by the interposed `getrandom`: fills `buf` when this thread has an override.
///
/// # Safety
/// `buf` must be valid for `len` bytes.
pub unsafe fn intercept(buf: *mut u8, len: usize) -> bool {
    let Ok(Some(seed)) = OVERRIDE.try_with(Cell::get) else { return false };
    let call = CALLS.with(|c| {
        let v = c.get();
        c.set(v + 1);
        v
    });
    let mut state = splitmix(seed ^ call.wrapping_mul(0x2545_f491_4f6c_dd1d));
    for i in 0..len {
        if i % 8 == 0 {
            state = splitmix(state);
        }
        *buf.add(i) = (state >> ((i % 8) * 8)) as u8;
    }
    true
}

/// Run `f` on a fresh thread whose hash seeds derive from `keys`.
pub fn with_hash_keys<R: Send>(keys: u64, f: impl FnOnce() -> R + Send) -> R {
    std::thread::scope(|s| {
        s.spawn(move || {
            OVERRIDE.with(|o| o.set(Some(keys)));
            f()
        })
        .join()
        .unwrap_or_else(|p| std::panic::resume_unwind(p))
    })
}

/// Give the *current* thread hash seeds derived from `keys`.  Only effective when called before
/// the thread creates its first `HashMap` (the engine calls it first thing in every shard thread,
/// so that a run is a function of the code and VERIF_SEED also where tested code iterates maps).
pub fn set_thread_keys(keys: u64) {
    OVERRIDE.with(|o| o.set(Some(keys)));
}

pub fn is_overridden() -> bool {
    OVERRIDE.with(Cell::get).is_some()
}

/// Define the interposing `getrandom` symbol.  Must be expanded in the *binary* crate.
#[macro_export]
macro_rules! interpose_random {
    () => {
        #[no_mangle]
        pub unsafe extern "C" fn getrandom(buf: *mut libc::c_void, len: libc::size_t, flags: libc::c_uint) -> libc::ssize_t {
            if $crate::hrand::intercept(buf as *mut u8, len) {
                return len as libc::ssize_t;
            }
            libc::syscall(libc::SYS_getrandom, buf, len, flags) as libc::ssize_t
        }
    };
}

/// Self-test: two fresh threads with the same override hash alike, with different ones differently.
pub fn self_test() -> Result<(), String> {
    use std::hash::{BuildHasher, RandomState};
    let a = with_hash_keys(7, || RandomState::new().hash_one(1u32));
    let b = with_hash_keys(7, || RandomState::new().hash_one(1u32));
    let c = with_hash_keys(8, || RandomState::new().hash_one(1u32));
    if a != b || a == c {
        return Err(format!("hash-seed override not in effect: {a:x} {b:x} {c:x}"));
    }
    Ok(())
}
