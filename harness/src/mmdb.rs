//! A minimal MaxMind-DB writer (IPv4, 24-bit records, "ipinfo" record layout of strings), so
//! that GeoIP text exists offline and deterministically.  Format: MaxMind DB File Format v2.0.

use std::collections::BTreeMap;
use std::net::Ipv4Addr;

fn ctrl(ty: u8, size: usize, out: &mut Vec<u8>) {
    // ty <= 7: in the control byte; otherwise extended (type 0, next byte = ty - 7)
    let (t, ext) = if ty <= 7 { (ty, None) } else { (0, Some(ty - 7)) };
    if size < 29 {
        out.push((t << 5) | size as u8);
    } else if size < 29 + 256 {
        out.push((t << 5) | 29);
        if let Some(e) = ext {
            out.push(e);
        }
        out.push((size - 29) as u8);
        return;
    } else {
        out.push((t << 5) | 30);
        if let Some(e) = ext {
            out.push(e);
        }
        out.extend_from_slice(&((size - 285) as u16).to_be_bytes());
        return;
    }
    if let Some(e) = ext {
        out.push(e);
    }
}

fn put_str(s: &str, out: &mut Vec<u8>) {
    ctrl(2, s.len(), out);
    out.extend_from_slice(s.as_bytes());
}

fn put_uint(ty: u8, v: u64, out: &mut Vec<u8>) {
    let bytes = v.to_be_bytes();
    let skip = bytes.iter().take_while(|b| **b == 0).count();
    ctrl(ty, 8 - skip, out);
    out.extend_from_slice(&bytes[skip..]);
}

fn put_map_header(n: usize, out: &mut Vec<u8>) {
    ctrl(7, n, out);
}

/// One database record: field name -> text.
pub type Record = BTreeMap<&'static str, String>;

/// Build the database bytes for a set of host addresses.
pub fn build(entries: &[(Ipv4Addr, Record)]) -> Vec<u8> {
    // data section
    let mut data: Vec<u8> = vec![];
    let mut offsets = vec![];
    for (_, rec) in entries {
        offsets.push(data.len());
        put_map_header(rec.len(), &mut data);
        for (k, v) in rec {
            put_str(k, &mut data);
            put_str(v, &mut data);
        }
    }
    // binary trie over 32 bits
    #[derive(Clone, Copy)]
    enum Rec {
        Empty,
        Node(usize),
        Data(usize),
    }
    let mut nodes: Vec<[Rec; 2]> = vec![[Rec::Empty, Rec::Empty]];
    for (i, (addr, _)) in entries.iter().enumerate() {
        let bits = u32::from(*addr);
        let mut cur = 0usize;
        for depth in 0..32 {
            let b = ((bits >> (31 - depth)) & 1) as usize;
            if depth == 31 {
                nodes[cur][b] = Rec::Data(i);
            } else {
                cur = match nodes[cur][b] {
                    Rec::Node(n) => n,
                    _ => {
                        nodes.push([Rec::Empty, Rec::Empty]);
                        let n = nodes.len() - 1;
                        nodes[cur][b] = Rec::Node(n);
                        n
                    }
                };
            }
        }
    }
    let node_count = nodes.len();
    let mut out: Vec<u8> = vec![];
    for n in &nodes {
        for r in n {
            let v: usize = match r {
                Rec::Empty => node_count,
                Rec::Node(x) => *x,
                Rec::Data(i) => node_count + 16 + offsets[*i],
            };
            assert!(v < (1 << 24));
            out.extend_from_slice(&(v as u32).to_be_bytes()[1..]);
        }
    }
    out.extend_from_slice(&[0u8; 16]);
    out.extend_from_slice(&data);
    // metadata
    out.extend_from_slice(b"\xab\xcd\xefMaxMind.com");
    put_map_header(9, &mut out);
    put_str("binary_format_major_version", &mut out);
    put_uint(5, 2, &mut out);
    put_str("binary_format_minor_version", &mut out);
    put_uint(5, 0, &mut out);
    put_str("build_epoch", &mut out);
    put_uint(9, 1_700_000_000, &mut out);
    put_str("database_type", &mut out);
    put_str("ipinfo verif", &mut out);
    put_str("description", &mut out);
    put_map_header(1, &mut out);
    put_str("en", &mut out);
    put_str("verification fixture", &mut out);
    put_str("ip_version", &mut out);
    put_uint(5, 4, &mut out);
    put_str("languages", &mut out);
    ctrl(11, 1, &mut out);
    put_str("en", &mut out);
    put_str("node_count", &mut out);
    put_uint(6, node_count as u64, &mut out);
    put_str("record_size", &mut out);
    put_uint(5, 24, &mut out);
    out
}
