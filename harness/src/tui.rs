//! Driver for the terminal UI: real `TuiApp` + real renderer on a ratatui `TestBackend`, fed by
//! real `Tracer`s whose state is filled with synthetic rounds.  The key -> method dispatch of
//! `frontend.rs::run_app` is mirrored here (`dispatch`), command by command.

use crate::engine::{catch, panic_sig, Fail};
use crate::props::c05::{build_round, History, SynRound};
use crate::simnet::{self, TraceCfg, WorldSpec};
use clap::Parser;
use ratatui::backend::TestBackend;
use ratatui::Terminal;
use serde::{Deserialize, Serialize};
use std::collections::BTreeMap;
use std::net::{IpAddr, Ipv4Addr};
use std::time::Duration;
use trippy_core::{CompletionReason, FlowId, Round, TimeToLive, Tracer};
use trippy_dns::{AsInfo, DnsEntry, DnsResolver, Resolved};
use trippy_privilege::Privilege;
use trippy_tui::verif::{build_config, make_tui_config, Args, ConfigFile, GeoIpLookup, TraceInfo, TuiApp};

#[derive(Clone, Copy, Debug, PartialEq, Eq, Hash, Serialize, Deserialize)]
pub enum Cmd {
    ToggleHelp,
    ToggleHelpAlt,
    ToggleSettings,
    ToggleSettingsTab(u8),
    NextHop,
    PreviousHop,
    PreviousTrace,
    NextTrace,
    NextHopAddress,
    PreviousHopAddress,
    AddressModeIp,
    AddressModeHost,
    AddressModeBoth,
    ToggleFreeze,
    ToggleChart,
    ToggleMap,
    ToggleFlows,
    ExpandPrivacy,
    ContractPrivacy,
    ContractHostsMin,
    ExpandHostsMax,
    ContractHosts,
    ExpandHosts,
    ChartZoomIn,
    ChartZoomOut,
    ClearTraceData,
    ClearDnsCache,
    ClearSelection,
    ToggleAsInfo,
    ToggleHopDetails,
}

pub const ALL_CMDS: [Cmd; 36] = [
    Cmd::ToggleHelp,
    Cmd::ToggleHelpAlt,
    Cmd::ToggleSettings,
    Cmd::ToggleSettingsTab(0),
    Cmd::ToggleSettingsTab(1),
    Cmd::ToggleSettingsTab(2),
    Cmd::ToggleSettingsTab(3),
    Cmd::ToggleSettingsTab(4),
    Cmd::ToggleSettingsTab(5),
    Cmd::ToggleSettingsTab(6),
    Cmd::NextHop,
    Cmd::PreviousHop,
    Cmd::PreviousTrace,
    Cmd::NextTrace,
    Cmd::NextHopAddress,
    Cmd::PreviousHopAddress,
    Cmd::AddressModeIp,
    Cmd::AddressModeHost,
    Cmd::AddressModeBoth,
    Cmd::ToggleFreeze,
    Cmd::ToggleChart,
    Cmd::ToggleMap,
    Cmd::ToggleFlows,
    Cmd::ExpandPrivacy,
    Cmd::ContractPrivacy,
    Cmd::ContractHostsMin,
    Cmd::ExpandHostsMax,
    Cmd::ContractHosts,
    Cmd::ExpandHosts,
    Cmd::ChartZoomIn,
    Cmd::ChartZoomOut,
    Cmd::ClearTraceData,
    Cmd::ClearDnsCache,
    Cmd::ClearSelection,
    Cmd::ToggleAsInfo,
    Cmd::ToggleHopDetails,
];

/// Key handling: the statement tree read from `frontend.rs::run_app` (see `tui_loop`), quit
/// commands excluded.
pub fn dispatch(app: &mut TuiApp, cmd: Cmd) {
    crate::tui_loop::dispatch(app, cmd);
}

#[derive(Clone, Debug, Serialize, Deserialize)]
pub enum Op {
    /// apply synthetic rounds to a trace
    Rounds { trace: u8, rounds: Vec<SynRound> },
    /// clear a trace's data from outside the UI
    ClearTrace { trace: u8 },
    Key(Cmd),
    Resize(u16, u16),
}

#[derive(Clone, Debug, Serialize, Deserialize)]
pub struct TraceSetup {
    pub cfg: TraceCfg,
    /// run a short simulated trace first (sets the source address; with `fatal` also an error)
    pub sim_rounds: u8,
    pub fatal: bool,
}

#[derive(Clone, Debug, Serialize, Deserialize)]
pub struct UiSetup {
    pub address_mode: u8,
    pub as_mode: u8,
    pub geoip_mode: u8,
    pub icmp_ext_mode: u8,
    pub privacy: Option<u8>,
    pub max_addrs: Option<u8>,
    pub columns: String,
    pub as_info: bool,
    pub width: u16,
    pub height: u16,
}

#[derive(Clone, Debug, Serialize, Deserialize)]
pub struct TuiCase {
    pub traces: Vec<TraceSetup>,
    pub ui: UiSetup,
    pub ops: Vec<Op>,
    /// run the case on a fresh thread whose `HashMap` seeds derive from this value (`hrand`);
    /// only set in stored demonstrations, generated cases leave it out
    #[serde(default, skip_serializing_if = "Option::is_none")]
    pub hash_keys: Option<u64>,
}

// ---------------------------------------------------------------------------------------------
// fixtures: names every hop address resolves to

pub fn hostname(a: Ipv4Addr) -> String {
    let o = a.octets();
    format!("h{}x{}.node.test", o[2], o[3])
}

pub fn asinfo(a: Ipv4Addr) -> AsInfo {
    let o = a.octets();
    AsInfo {
        asn: format!("64{:02}{}", o[2] % 100, o[3]),
        prefix: format!("10.9.{}.0/2{}", o[2], o[3] % 8),
        cc: "ZZ".into(),
        registry: format!("REG{}X{}", o[2], o[3]),
        allocated: format!("19{:02}-0{}-11", o[2] % 100, 1 + o[3] % 8),
        name: format!("ASNAME{}X{}", o[2], o[3]),
    }
}

pub fn geo_record(a: Ipv4Addr) -> crate::mmdb::Record {
    let o = a.octets();
    let mut r: crate::mmdb::Record = BTreeMap::new();
    r.insert("city", format!("City{}x{}", o[2], o[3]));
    r.insert("region", format!("Region{}x{}", o[2], o[3]));
    r.insert("country", "ZZ".to_string());
    r.insert("country_name", format!("Land{}x{}", o[2], o[3]));
    r.insert("continent_name", format!("Cont{}x{}", o[2], o[3]));
    r.insert("postal_code", format!("P{}Q{}", o[2], o[3]));
    r.insert("latitude", format!("{}.25", i32::from(o[2] % 80) - 40));
    r.insert("longitude", format!("{}.75", i32::from(o[3]) * 20 - 60));
    r.insert("radius", "300".to_string());
    r
}

/// Everything that identifies the host at `a` on screen.
pub fn secrets(a: Ipv4Addr) -> Vec<String> {
    let asn = asinfo(a);
    let g = geo_record(a);
    vec![
        a.to_string(),
        hostname(a),
        format!("AS{}", asn.asn),
        asn.prefix,
        asn.registry,
        asn.allocated,
        asn.name,
        g["city"].clone(),
        g["region"].clone(),
        g["country_name"].clone(),
        g["continent_name"].clone(),
        g["postal_code"].clone(),
    ]
}

pub const MAX_FIXTURE_TTL: u8 = 40;
pub const FIXTURE_HOSTS: u8 = 3;

pub fn fixture_addrs() -> Vec<Ipv4Addr> {
    let mut v = vec![];
    for ttl in 1..=MAX_FIXTURE_TTL {
        for i in 0..FIXTURE_HOSTS {
            v.push(Ipv4Addr::new(10, 9, ttl, i));
        }
    }
    v
}

pub fn seed_dns(resolver: &DnsResolver, extra: &[IpAddr]) {
    for a in fixture_addrs() {
        resolver.verif_seed(IpAddr::V4(a), DnsEntry::Resolved(Resolved::WithAsInfo(IpAddr::V4(a), vec![hostname(a)], asinfo(a))));
    }
    for a in extra {
        resolver.verif_seed(*a, DnsEntry::Resolved(Resolved::Normal(*a, vec![other_hostname(*a)])));
    }
}

/// The seeded reverse-DNS name of a source / target address.
pub fn other_hostname(a: IpAddr) -> String {
    format!("other-{}.test", hash_ip(a))
}

fn hash_ip(a: IpAddr) -> u64 {
    crate::engine::hash64(&a) % 100_000
}

/// Path of the GeoIP fixture (written once per process).
pub fn mmdb_path() -> String {
    use std::sync::OnceLock;
    static PATH: OnceLock<String> = OnceLock::new();
    PATH.get_or_init(|| {
        let dir = std::env::var("VERIF_OUT_DIR")
            .or_else(|_| std::env::var("VERIF_DIR"))
            .map(|d| format!("{d}/harness/target"))
            .unwrap_or_else(|_| std::env::temp_dir().display().to_string());
        let _ = std::fs::create_dir_all(&dir);
        let p = format!("{dir}/verif-geoip-{}.mmdb", std::process::id());
        let entries: Vec<_> = fixture_addrs().into_iter().map(|a| (a, geo_record(a))).collect();
        std::fs::write(&p, crate::mmdb::build(&entries)).expect("write mmdb");
        p
    })
    .clone()
}

// ---------------------------------------------------------------------------------------------

pub struct Session {
    pub app: TuiApp,
    pub terminal: Terminal<TestBackend>,
    pub tracers: Vec<Tracer>,
    pub setups: Vec<TraceSetup>,
    pub round_no: Vec<usize>,
    pub seq: Vec<u16>,
    pub geoip: bool,
    pub extra_addrs: Vec<IpAddr>,
}

/// Build the application the way `run_trippy` does: argv -> build_config -> make_tui_config.
pub fn start(c: &TuiCase) -> Result<Session, Fail> {
    let ui = &c.ui;
    let geoip = ui.geoip_mode % 4 != 0;
    let mut argv: Vec<String> = vec!["trip".into(), "example.com".into()];
    let mut push = |k: &str, v: String| {
        argv.push(k.to_string());
        argv.push(v);
    };
    push("--tui-address-mode", ["ip", "host", "both"][usize::from(ui.address_mode % 3)].to_string());
    push("--tui-as-mode", ["asn", "prefix", "country-code", "registry", "allocated", "name"][usize::from(ui.as_mode % 6)].to_string());
    push("--tui-icmp-extension-mode", ["off", "mpls", "full", "all"][usize::from(ui.icmp_ext_mode % 4)].to_string());
    push("--tui-geoip-mode", ["off", "short", "long", "location"][usize::from(ui.geoip_mode % 4)].to_string());
    // the map needs the database even when the table shows no GeoIP text
    push("--geoip-mmdb-file", mmdb_path());
    if let Some(p) = ui.privacy {
        push("--tui-privacy-max-ttl", p.to_string());
    }
    if let Some(m) = ui.max_addrs {
        push("--tui-max-addrs", m.to_string());
    }
    push("--tui-custom-columns", ui.columns.clone());
    push("--dns-resolve-method", "google".to_string());
    push("--dns-timeout", "10ms".to_string());
    push("--dns-ttl", "10days".to_string());
    if ui.as_info {
        argv.push("--dns-lookup-as-info".into());
    }
    let args = Args::try_parse_from(&argv).map_err(|e| Fail::new("tui-setup", format!("argv rejected: {e}")))?;
    let file: ConfigFile = toml::from_str("").expect("empty config");
    let cfg = build_config(args, file, &Privilege::new(true, false), 777).map_err(|e| Fail::new("tui-setup", format!("configuration rejected: {e}")))?;
    let tui_config = make_tui_config(&cfg, "en".to_string());
    // One resolver (and its worker thread) per shard thread, not per case: every name a case can
    // display is seeded below, so no lookup is queued and nothing of one case outlives it.  The
    // exception is a trace whose warm-up run leaves simulated hop addresses behind (fatal
    // traces): those cases get a resolver of their own.
    thread_local! {
        static SHARED: std::cell::RefCell<Option<DnsResolver>> = const { std::cell::RefCell::new(None) };
    }
    let new_resolver = || {
        DnsResolver::start(trippy_dns::Config::new(cfg.dns_resolve_method, cfg.addr_family, cfg.dns_timeout, cfg.dns_ttl))
            .map_err(|e| Fail::new("tui-setup", format!("resolver: {e}")))
    };
    let resolver = if c.traces.iter().any(|t| t.fatal) {
        new_resolver()?
    } else {
        let cached = SHARED.with(|s| s.borrow().clone());
        match cached {
            Some(r) => r,
            None => {
                let r = new_resolver()?;
                SHARED.with(|s| *s.borrow_mut() = Some(r.clone()));
                r
            }
        }
    };
    let geoip_lookup = GeoIpLookup::from_file(mmdb_path(), "en".to_string()).map_err(|e| Fail::new("tui-setup", format!("mmdb fixture rejected: {e}")))?;
    let mut tracers = vec![];
    let mut infos = vec![];
    let mut extra = vec![];
    for (i, t) in c.traces.iter().enumerate() {
        let tracer = t.cfg.build().map_err(|e| Fail::new("tui-setup", format!("tracer: {e}")))?;
        if t.sim_rounds > 0 || t.fatal {
            let mut tc = t.cfg.clone();
            tc.max_rounds = u32::from(t.sim_rounds.max(1));
            let mut w = WorldSpec::simple(3);
            if t.fatal {
                w.faults = vec![simnet::FaultSpec { stage: simnet::Stage::Poll, nth: 2, errno: libc::EIO, repeat: 0 }];
            }
            let _ = simnet::run_shared(tracer.clone(), &tc, &w, |_| {});
            // the hop data of the warm-up run is dropped; source address and error remain
            if !t.fatal {
                tracer.clear();
            }
        }
        extra.push(t.cfg.src_addr());
        extra.push(t.cfg.target_addr());
        infos.push(TraceInfo::new(tracer.clone(), format!("target{i}.example")));
        tracers.push(tracer);
    }
    seed_dns(&resolver, &extra);
    let app = TuiApp::new(tui_config, resolver, geoip_lookup, infos);
    let terminal = Terminal::new(TestBackend::new(ui.width.max(1), ui.height.max(1))).map_err(|e| Fail::new("tui-setup", e.to_string()))?;
    Ok(Session {
        app,
        terminal,
        tracers,
        setups: c.traces.clone(),
        round_no: vec![0; c.traces.len()],
        seq: vec![33434; c.traces.len()],
        geoip,
        extra_addrs: extra,
    })
}

impl Session {
    /// One iteration of the `run_app` loop up to and including the draw.
    pub fn refresh_and_draw(&mut self) -> Result<(), Fail> {
        let app = &mut self.app;
        let term = &mut self.terminal;
        catch(|| crate::tui_loop::refresh_and_draw(app, term))
        .map_err(|p| Fail::new(format!("draw:{}", panic_sig(&p)), format!("drawing a frame panicked: {p}")))?
        .map_err(|e| Fail::new("draw-io", e.to_string()))
    }

    pub fn apply(&mut self, op: &Op) -> Result<(), Fail> {
        match op {
            Op::Rounds { trace, rounds } => {
                let i = usize::from(*trace) % self.tracers.len();
                let h = History { first_ttl: self.setups[i].cfg.first_ttl.clamp(1, 20), max_samples: 0, max_flows: 0, rounds: vec![] };
                for r in rounds {
                    let b = build_round(&h, self.round_no[i], r, self.seq[i]);
                    self.seq[i] = self.seq[i].wrapping_add(b.probes.len() as u16);
                    self.round_no[i] += 1;
                    let round = Round::new(&b.probes, TimeToLive(b.largest_ttl), CompletionReason::TargetFound);
                    let t = &self.tracers[i];
                    catch(|| t.verif_apply_round(&round)).map_err(|p| Fail::new(format!("apply-round:{}", panic_sig(&p)), format!("applying a round panicked: {p}")))?;
                }
                Ok(())
            }
            Op::ClearTrace { trace } => {
                let i = usize::from(*trace) % self.tracers.len();
                self.tracers[i].clear();
                Ok(())
            }
            Op::Key(cmd) => {
                let app = &mut self.app;
                let r = catch(|| dispatch(app, *cmd)).map_err(|p| Fail::new(format!("command:{cmd:?}:{}", panic_sig(&p)), format!("handling {cmd:?} panicked: {p}")));
                if matches!(cmd, Cmd::ClearDnsCache | Cmd::ToggleAsInfo) {
                    // keep names resolvable offline: whatever was flushed is seeded again
                    seed_dns(&self.app.resolver, &self.extra_addrs);
                }
                r
            }
            Op::Resize(w, h) => {
                self.terminal.backend_mut().resize((*w).max(1), (*h).max(1));
                Ok(())
            }
        }
    }

    /// The text of every row of the last frame.
    pub fn rows(&self) -> Vec<String> {
        let buf = self.terminal.backend().buffer();
        let area = buf.area;
        (0..area.height)
            .map(|y| (0..area.width).map(|x| buf[(x, y)].symbol().to_string()).collect::<String>())
            .collect()
    }

    /// Selection indexes must refer to entries of the data being displayed.
    pub fn check_selection(&self) -> Result<(), Fail> {
        let app = &self.app;
        let data = app.tracer_data();
        let known_flow = app.selected_flow == FlowId(0) || data.flows().iter().any(|(_, id)| *id == app.selected_flow);
        if !known_flow {
            return Err(Fail::new("selection:flow", format!("selected flow {} does not exist (flows: {:?})", app.selected_flow, data.flows().iter().map(|(_, id)| id.0).collect::<Vec<_>>())));
        }
        let hops = data.hops_for_flow(app.selected_flow);
        if let Some(s) = app.table_state.selected() {
            if s >= hops.len() {
                return Err(Fail::new("selection:hop", format!("selected hop index {s} with {} hops displayed", hops.len())));
            }
            let n = hops[s].addr_count();
            if app.selected_hop_address >= n.max(1) {
                return Err(Fail::new("selection:hop-address", format!("selected hop address index {} but the hop has {n} addresses", app.selected_hop_address)));
            }
        }
        if app.trace_selected >= app.trace_info.len() {
            return Err(Fail::new("selection:trace", format!("selected trace {} of {}", app.trace_selected, app.trace_info.len())));
        }
        if app.settings_tab_selected >= 7 {
            return Err(Fail::new("selection:settings-tab", format!("settings tab {}", app.settings_tab_selected)));
        }
        if app.show_settings {
            // the item selected in the settings dialog must be one of the rows the tab renders
            let counts = trippy_tui::verif::verif_settings_item_counts(app);
            let n = counts.get(app.settings_tab_selected).copied().unwrap_or(0);
            if let Some(i) = app.setting_table_state.selected() {
                if i >= n.max(1) {
                    return Err(Fail::new("selection:settings-item", format!("settings tab {} has {n} items but item {i} is selected", app.settings_tab_selected)));
                }
            }
        }
        Ok(())
    }
}

pub fn duration_unused(_: Duration) {}
