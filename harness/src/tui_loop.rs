//! The event loop of `frontend.rs::run_app`, read from the source instead of being copied.
//!
//! `run_app` is private, blocks on the terminal's event source and cannot be driven in-process
//! without editing it.  Rather than keeping a hand-written copy of its key -> method table and
//! of the per-iteration refresh (snapshot, clamp, order flows, draw), the harness parses the
//! function's text (compiled in with `include_str!`, so a change to the file rebuilds the
//! harness) into a small statement tree and interprets that tree against the real `TuiApp`:
//! a changed mapping, a dropped call, a reordered refresh step or a changed mode test in
//! `run_app` changes what the harness executes.  Only the shape of the code is assumed
//! (if / else-if chains over `bindings.<name>.check(key)`, calls of `TuiApp` methods without
//! arguments or with one integer, three assignments); anything else stops the check as
//! inconclusive (exit 2) instead of being guessed at.

use crate::tui::Cmd;
use ratatui::backend::TestBackend;
use ratatui::Terminal;
use std::sync::OnceLock;
use trippy_tui::verif::{AddressMode, TuiApp};

const SRC: &str = include_str!("/repo/crates/trippy-tui/src/frontend.rs");

#[derive(Clone, Debug, PartialEq)]
pub enum Atom {
    /// `bindings.<name>.check(key)`
    Binding(String),
    /// `CTRL_C.check(key)`
    CtrlC,
    /// `app.<flag>` (a bool field)
    Flag(String),
    /// `app.frozen_start.is_none()`
    NotFrozen,
    /// event plumbing (`event::poll(..)?`, `let Event::Key(key) = event::read()?`,
    /// `key.kind == KeyEventKind::Press`): true whenever a key press is delivered
    KeyDelivered,
}

#[derive(Clone, Debug, PartialEq)]
pub enum Stmt {
    If { any_of: Vec<Atom>, then: Vec<Stmt>, els: Vec<Stmt> },
    Call { path: String, arg: Option<usize> },
    Assign { path: String, value: String },
    Return(String),
    Draw,
    Skip,
}

#[derive(Debug)]
pub struct Program {
    /// the body of `loop { .. }`
    pub body: Vec<Stmt>,
}

// ------------------------------------------------------------------------------------ lexer

fn tokens(src: &str) -> Vec<String> {
    let mut out = vec![];
    let b: Vec<char> = src.chars().collect();
    let mut i = 0;
    while i < b.len() {
        let c = b[i];
        if c.is_whitespace() {
            i += 1;
        } else if c == '/' && b.get(i + 1) == Some(&'/') {
            while i < b.len() && b[i] != '\n' {
                i += 1;
            }
        } else if c.is_alphanumeric() || c == '_' {
            let s = i;
            while i < b.len() && (b[i].is_alphanumeric() || b[i] == '_') {
                i += 1;
            }
            out.push(b[s..i].iter().collect());
        } else if c == '"' {
            let s = i;
            i += 1;
            while i < b.len() && b[i] != '"' {
                if b[i] == '\\' {
                    i += 1;
                }
                i += 1;
            }
            i += 1;
            out.push(b[s..i.min(b.len())].iter().collect());
        } else {
            let two: String = b[i..(i + 2).min(b.len())].iter().collect();
            if ["::", "||", "&&", "==", "=>", "->", "!="].contains(&two.as_str()) {
                out.push(two);
                i += 2;
            } else {
                out.push(c.to_string());
                i += 1;
            }
        }
    }
    out
}

// ----------------------------------------------------------------------------------- parser

struct P {
    t: Vec<String>,
    i: usize,
}

impl P {
    fn peek(&self, k: usize) -> &str {
        self.t.get(self.i + k).map_or("", String::as_str)
    }
    fn at(&self, pat: &[&str]) -> bool {
        pat.iter().enumerate().all(|(k, p)| self.peek(k) == *p)
    }
    fn eat(&mut self, pat: &[&str]) -> Result<(), String> {
        if self.at(pat) {
            self.i += pat.len();
            Ok(())
        } else {
            Err(format!("expected `{}` near `{}`", pat.join(" "), self.context()))
        }
    }
    fn context(&self) -> String {
        self.t[self.i.min(self.t.len())..(self.i + 12).min(self.t.len())].join(" ")
    }
    fn ident(&mut self) -> Result<String, String> {
        let s = self.peek(0).to_string();
        if s.chars().next().is_some_and(|c| c.is_alphabetic() || c == '_') {
            self.i += 1;
            Ok(s)
        } else {
            Err(format!("expected an identifier near `{}`", self.context()))
        }
    }
    /// Skip a balanced token run up to (and including) the `;` that ends the statement.
    fn skip_statement(&mut self) -> Result<(), String> {
        let mut depth = 0i32;
        while self.i < self.t.len() {
            match self.peek(0) {
                "(" | "[" | "{" => depth += 1,
                ")" | "]" | "}" => depth -= 1,
                ";" if depth == 0 => {
                    self.i += 1;
                    return Ok(());
                }
                _ => {}
            }
            self.i += 1;
        }
        Err("unterminated statement".into())
    }

    fn block(&mut self) -> Result<Vec<Stmt>, String> {
        self.eat(&["{"])?;
        let mut v = vec![];
        while !self.at(&["}"]) {
            if self.i >= self.t.len() {
                return Err("unterminated block".into());
            }
            v.push(self.stmt()?);
        }
        self.eat(&["}"])?;
        Ok(v)
    }

    fn atom(&mut self) -> Result<Atom, String> {
        if self.at(&["bindings", "."]) {
            self.i += 2;
            let name = self.ident()?;
            self.eat(&[".", "check", "(", "key", ")"])?;
            Ok(Atom::Binding(name))
        } else if self.at(&["CTRL_C", ".", "check", "(", "key", ")"]) {
            self.i += 6;
            Ok(Atom::CtrlC)
        } else if self.at(&["app", ".", "frozen_start", ".", "is_none", "(", ")"]) {
            self.i += 7;
            Ok(Atom::NotFrozen)
        } else if self.at(&["app", "."]) && self.peek(3) != "." && self.peek(3) != "(" {
            self.i += 2;
            Ok(Atom::Flag(self.ident()?))
        } else if self.at(&["event", "::", "poll", "(", "app", ".", "tui_config", ".", "refresh_rate", ")", "?"]) {
            self.i += 11;
            Ok(Atom::KeyDelivered)
        } else if self.at(&["let", "Event", "::", "Key", "(", "key", ")", "=", "event", "::", "read", "(", ")", "?"]) {
            self.i += 14;
            Ok(Atom::KeyDelivered)
        } else if self.at(&["key", ".", "kind", "==", "KeyEventKind", "::", "Press"]) {
            self.i += 7;
            Ok(Atom::KeyDelivered)
        } else {
            Err(format!("condition not understood near `{}`", self.context()))
        }
    }

    fn stmt(&mut self) -> Result<Stmt, String> {
        if self.at(&["if"]) {
            self.i += 1;
            let mut any_of = vec![self.atom()?];
            while self.at(&["||"]) {
                self.i += 1;
                any_of.push(self.atom()?);
            }
            let then = self.block()?;
            let els = if self.at(&["else"]) {
                self.i += 1;
                if self.at(&["if"]) {
                    vec![self.stmt()?]
                } else {
                    self.block()?
                }
            } else {
                vec![]
            };
            return Ok(Stmt::If { any_of, then, els });
        }
        if self.at(&["let"]) {
            self.skip_statement()?;
            return Ok(Stmt::Skip);
        }
        if self.at(&["return", "Ok", "(", "ExitAction", "::"]) {
            self.i += 5;
            let what = self.ident()?;
            self.eat(&[")", ";"])?;
            return Ok(Stmt::Return(what));
        }
        if self.at(&["terminal", ".", "draw", "("]) {
            self.skip_statement()?;
            return Ok(Stmt::Draw);
        }
        if self.at(&["app", "."]) {
            self.i += 2;
            let mut path = self.ident()?;
            while self.at(&["."]) {
                self.i += 1;
                path.push('.');
                path.push_str(&self.ident()?);
            }
            if self.at(&["("]) {
                self.i += 1;
                let arg = if self.at(&[")"]) {
                    None
                } else {
                    let n = self.peek(0).parse::<usize>().map_err(|_| format!("argument not understood near `{}`", self.context()))?;
                    self.i += 1;
                    Some(n)
                };
                self.eat(&[")", ";"])?;
                return Ok(Stmt::Call { path, arg });
            }
            if self.at(&["="]) {
                self.i += 1;
                let mut value = self.ident()?;
                while self.at(&["::"]) {
                    self.i += 1;
                    value.push_str("::");
                    value.push_str(&self.ident()?);
                }
                self.eat(&[";"])?;
                return Ok(Stmt::Assign { path, value });
            }
        }
        Err(format!("statement not understood near `{}`", self.context()))
    }
}

fn parse(src: &str) -> Result<Program, String> {
    let t = tokens(src);
    let start = t.windows(2).position(|w| w[0] == "fn" && w[1] == "run_app").ok_or("fn run_app not found")?;
    let mut p = P { t, i: start };
    // skip the signature up to the body
    while p.i < p.t.len() && !p.at(&["{"]) {
        // generics and the return type contain no braces
        p.i += 1;
    }
    p.eat(&["{"])?;
    p.eat(&["loop"])?;
    let body = p.block()?;
    p.eat(&["}"])?;
    let prog = Program { body };
    validate(&prog.body)?;
    if !prog.body.iter().any(|s| *s == Stmt::Draw) {
        return Err("no terminal.draw(..) in the loop".into());
    }
    Ok(prog)
}

fn validate(stmts: &[Stmt]) -> Result<(), String> {
    for s in stmts {
        match s {
            Stmt::If { any_of, then, els } => {
                for a in any_of {
                    if let Atom::Flag(f) = a {
                        if !["show_help", "show_settings", "show_flows", "show_chart", "show_map", "show_hop_details"].contains(&f.as_str()) {
                            return Err(format!("flag app.{f} is not known to the harness"));
                        }
                    }
                    if let Atom::Binding(b) = a {
                        if !KNOWN_BINDINGS.contains(&b.as_str()) {
                            return Err(format!("binding {b} is not known to the harness"));
                        }
                    }
                }
                validate(then)?;
                validate(els)?;
            }
            Stmt::Call { path, arg } => {
                if call(None, path, *arg).is_err() {
                    return Err(format!("app.{path}({}) is not known to the harness", arg.map_or(String::new(), |a| a.to_string())));
                }
            }
            Stmt::Assign { path, value } => {
                if assign(None, path, value).is_err() {
                    return Err(format!("app.{path} = {value} is not known to the harness"));
                }
            }
            Stmt::Return(_) | Stmt::Draw | Stmt::Skip => {}
        }
    }
    Ok(())
}

pub fn program() -> &'static Program {
    static P: OnceLock<Program> = OnceLock::new();
    P.get_or_init(|| match parse(SRC) {
        Ok(p) => p,
        Err(e) => {
            eprintln!("INCONCLUSIVE: frontend.rs::run_app has a shape the harness does not interpret: {e}");
            std::process::exit(2);
        }
    })
}

// ------------------------------------------------------------------------------ interpreter

const KNOWN_BINDINGS: [&str; 39] = [
    "toggle_help",
    "toggle_help_alt",
    "toggle_settings",
    "toggle_settings_tui",
    "toggle_settings_trace",
    "toggle_settings_dns",
    "toggle_settings_geoip",
    "toggle_settings_bindings",
    "toggle_settings_theme",
    "toggle_settings_columns",
    "next_hop",
    "previous_hop",
    "previous_trace",
    "next_trace",
    "next_hop_address",
    "previous_hop_address",
    "address_mode_ip",
    "address_mode_host",
    "address_mode_both",
    "toggle_freeze",
    "toggle_chart",
    "toggle_map",
    "toggle_flows",
    "expand_privacy",
    "contract_privacy",
    "contract_hosts_min",
    "expand_hosts_max",
    "contract_hosts",
    "expand_hosts",
    "chart_zoom_in",
    "chart_zoom_out",
    "clear_trace_data",
    "clear_dns_cache",
    "clear_selection",
    "toggle_as_info",
    "toggle_hop_details",
    "quit",
    "quit_preserve_screen",
    "toggle_privacy",
];

/// The binding a command stands for.
pub fn binding_of(cmd: Cmd) -> &'static str {
    match cmd {
        Cmd::ToggleHelp => "toggle_help",
        Cmd::ToggleHelpAlt => "toggle_help_alt",
        Cmd::ToggleSettings => "toggle_settings",
        Cmd::ToggleSettingsTab(0) => "toggle_settings_tui",
        Cmd::ToggleSettingsTab(1) => "toggle_settings_trace",
        Cmd::ToggleSettingsTab(2) => "toggle_settings_dns",
        Cmd::ToggleSettingsTab(3) => "toggle_settings_geoip",
        Cmd::ToggleSettingsTab(4) => "toggle_settings_bindings",
        Cmd::ToggleSettingsTab(5) => "toggle_settings_theme",
        Cmd::ToggleSettingsTab(_) => "toggle_settings_columns",
        Cmd::NextHop => "next_hop",
        Cmd::PreviousHop => "previous_hop",
        Cmd::PreviousTrace => "previous_trace",
        Cmd::NextTrace => "next_trace",
        Cmd::NextHopAddress => "next_hop_address",
        Cmd::PreviousHopAddress => "previous_hop_address",
        Cmd::AddressModeIp => "address_mode_ip",
        Cmd::AddressModeHost => "address_mode_host",
        Cmd::AddressModeBoth => "address_mode_both",
        Cmd::ToggleFreeze => "toggle_freeze",
        Cmd::ToggleChart => "toggle_chart",
        Cmd::ToggleMap => "toggle_map",
        Cmd::ToggleFlows => "toggle_flows",
        Cmd::ExpandPrivacy => "expand_privacy",
        Cmd::ContractPrivacy => "contract_privacy",
        Cmd::ContractHostsMin => "contract_hosts_min",
        Cmd::ExpandHostsMax => "expand_hosts_max",
        Cmd::ContractHosts => "contract_hosts",
        Cmd::ExpandHosts => "expand_hosts",
        Cmd::ChartZoomIn => "chart_zoom_in",
        Cmd::ChartZoomOut => "chart_zoom_out",
        Cmd::ClearTraceData => "clear_trace_data",
        Cmd::ClearDnsCache => "clear_dns_cache",
        Cmd::ClearSelection => "clear_selection",
        Cmd::ToggleAsInfo => "toggle_as_info",
        Cmd::ToggleHopDetails => "toggle_hop_details",
    }
}

/// Call `app.<path>(arg)`; with `app == None` only checks that the method is known.
fn call(app: Option<&mut TuiApp>, path: &str, arg: Option<usize>) -> Result<(), ()> {
    macro_rules! m0 {
        ($($name:literal => $method:ident),* $(,)?) => {
            match (path, arg) {
                $(($name, None) => { if let Some(a) = app { a.$method(); } Ok(()) })*
                ("show_settings_columns", Some(n)) => { if let Some(a) = app { a.show_settings_columns(n); } Ok(()) }
                ("resolver.flush", None) => { if let Some(a) = app { a.resolver.flush(); } Ok(()) }
                _ => Err(()),
            }
        };
    }
    m0! {
        "snapshot_trace_data" => snapshot_trace_data,
        "clamp_selected_hop" => clamp_selected_hop,
        "update_order_flow_counts" => update_order_flow_counts,
        "toggle_help" => toggle_help,
        "toggle_settings" => toggle_settings,
        "previous_settings_tab" => previous_settings_tab,
        "next_settings_tab" => next_settings_tab,
        "next_settings_item" => next_settings_item,
        "previous_settings_item" => previous_settings_item,
        "toggle_column_visibility" => toggle_column_visibility,
        "move_column_down" => move_column_down,
        "move_column_up" => move_column_up,
        "next_hop" => next_hop,
        "previous_hop" => previous_hop,
        "previous_flow" => previous_flow,
        "next_flow" => next_flow,
        "previous_trace" => previous_trace,
        "next_trace" => next_trace,
        "next_hop_address" => next_hop_address,
        "previous_hop_address" => previous_hop_address,
        "toggle_freeze" => toggle_freeze,
        "toggle_chart" => toggle_chart,
        "toggle_map" => toggle_map,
        "toggle_flows" => toggle_flows,
        "expand_privacy" => expand_privacy,
        "contract_privacy" => contract_privacy,
        "contract_hosts_min" => contract_hosts_min,
        "expand_hosts_max" => expand_hosts_max,
        "contract_hosts" => contract_hosts,
        "expand_hosts" => expand_hosts,
        "zoom_in" => zoom_in,
        "zoom_out" => zoom_out,
        "clear" => clear,
        "clear_trace_data" => clear_trace_data,
        "toggle_asinfo" => toggle_asinfo,
        "toggle_hop_details" => toggle_hop_details,
    }
}

fn assign(app: Option<&mut TuiApp>, path: &str, value: &str) -> Result<(), ()> {
    let mode = match (path, value) {
        ("tui_config.address_mode", "AddressMode::Ip") => AddressMode::Ip,
        ("tui_config.address_mode", "AddressMode::Host") => AddressMode::Host,
        ("tui_config.address_mode", "AddressMode::Both") => AddressMode::Both,
        _ => return Err(()),
    };
    if let Some(a) = app {
        a.tui_config.address_mode = mode;
    }
    Ok(())
}

fn flag(app: &TuiApp, name: &str) -> bool {
    match name {
        "show_help" => app.show_help,
        "show_settings" => app.show_settings,
        "show_flows" => app.show_flows,
        "show_chart" => app.show_chart,
        "show_map" => app.show_map,
        "show_hop_details" => app.show_hop_details,
        _ => false,
    }
}

#[derive(Clone, Copy, PartialEq, Eq, Debug)]
enum Flow {
    Continue,
    /// `terminal.draw` reached while running the refresh part
    Drawn,
    Returned,
}

struct Interp<'a> {
    app: &'a mut TuiApp,
    term: Option<&'a mut Terminal<TestBackend>>,
    key: Option<Cmd>,
    draw_result: Option<std::io::Result<()>>,
}

impl Interp<'_> {
    fn cond(&self, any_of: &[Atom]) -> bool {
        any_of.iter().any(|a| match a {
            Atom::Binding(b) => self.key.is_some_and(|k| binding_of(k) == b),
            Atom::CtrlC => false,
            Atom::Flag(f) => flag(self.app, f),
            Atom::NotFrozen => self.app.frozen_start.is_none(),
            Atom::KeyDelivered => self.key.is_some(),
        })
    }

    fn run(&mut self, stmts: &[Stmt]) -> Flow {
        for s in stmts {
            match s {
                Stmt::If { any_of, then, els } => {
                    let branch = if self.cond(any_of) { then } else { els };
                    match self.run(branch) {
                        Flow::Continue => {}
                        other => return other,
                    }
                }
                Stmt::Call { path, arg } => {
                    let _ = call(Some(self.app), path, *arg);
                }
                Stmt::Assign { path, value } => {
                    let _ = assign(Some(self.app), path, value);
                }
                Stmt::Return(_) => return Flow::Returned,
                Stmt::Draw => {
                    if let Some(term) = self.term.as_deref_mut() {
                        let app = &mut *self.app;
                        self.draw_result = Some(term.draw(|f| trippy_tui::verif::render(f, app)).map(|_| ()));
                        return Flow::Drawn;
                    }
                }
                Stmt::Skip => {}
            }
        }
        Flow::Continue
    }
}

/// The part of one loop iteration up to and including `terminal.draw(..)`.
pub fn refresh_and_draw(app: &mut TuiApp, term: &mut Terminal<TestBackend>) -> std::io::Result<()> {
    let mut it = Interp { app, term: Some(term), key: None, draw_result: None };
    let _ = it.run(&program().body);
    it.draw_result.unwrap_or(Ok(()))
}

/// The part of one loop iteration after the draw, with `cmd`'s key pressed.
pub fn dispatch(app: &mut TuiApp, cmd: Cmd) {
    let body = &program().body;
    let after = body.iter().position(|s| *s == Stmt::Draw).map_or(0, |i| i + 1);
    let mut it = Interp { app, term: None, key: Some(cmd), draw_result: None };
    let _ = it.run(&body[after..]);
}

/// A printable outline of what was read from the source (for DESIGN.md / debugging).
pub fn outline() -> String {
    fn go(stmts: &[Stmt], depth: usize, out: &mut String) {
        for s in stmts {
            let pad = "  ".repeat(depth);
            match s {
                Stmt::If { any_of, then, els } => {
                    out.push_str(&format!("{pad}if {any_of:?}\n"));
                    go(then, depth + 1, out);
                    if !els.is_empty() {
                        out.push_str(&format!("{pad}else\n"));
                        go(els, depth + 1, out);
                    }
                }
                other => out.push_str(&format!("{pad}{other:?}\n")),
            }
        }
    }
    let mut out = String::new();
    go(&program().body, 0, &mut out);
    out
}
