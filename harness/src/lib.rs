pub mod engine;
pub mod mmdb;
pub mod tui;
pub mod oracle;
pub mod props;
pub mod simnet;
pub mod vclock;
pub mod wire;
