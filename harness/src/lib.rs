pub mod engine;
pub mod oracle;
pub mod props;
pub mod simnet;
pub mod vclock;
pub mod wire;
