//! C04 No inbound packet, however malformed, can crash the tracer.

use super::{sim_case, SimCase};
use crate::engine::*;
use crate::simnet::gen::GenOpts;
use crate::simnet::world;
use crate::simnet::*;
use crate::{vclock, vensure, vfail};
use proptest::prelude::*;
use proptest::strategy::BoxedStrategy;
use serde::{Deserialize, Serialize};
use serde_json::json;
use std::net::IpAddr;
use std::time::Duration;
use trippy_core::verif::{Channel, ChannelConfig, Network};
use trippy_core::{IcmpExtensionParseMode, PacketSize, PayloadPattern, PrivilegeMode, Sequence, TypeOfService};
use trippy_packet::icmp_extension::extension_header::ExtensionHeaderPacket;
use trippy_packet::icmp_extension::extension_object::ExtensionObjectPacket;
use trippy_packet::icmp_extension::extension_structure::ExtensionsPacket;
use trippy_packet::icmp_extension::mpls_label_stack::MplsLabelStackPacket;
use trippy_packet::icmp_extension::mpls_label_stack_member::MplsLabelStackMemberPacket;
use trippy_packet::ipv4::Ipv4Packet;
use trippy_packet::ipv6::Ipv6Packet;
use trippy_packet::tcp::TcpPacket;
use trippy_packet::udp::UdpPacket;
use trippy_packet::{icmpv4, icmpv6};

// ---------------------------------------------------------------------------------------------
// (c) every accessor of every view

pub const VIEW_TYPES: [&str; 19] = [
    "ipv4",
    "ipv6",
    "udp",
    "tcp",
    "icmpv4",
    "icmpv4.echo_request",
    "icmpv4.echo_reply",
    "icmpv4.time_exceeded",
    "icmpv4.destination_unreachable",
    "icmpv6",
    "icmpv6.echo_request",
    "icmpv6.echo_reply",
    "icmpv6.time_exceeded",
    "icmpv6.destination_unreachable",
    "ext.structure",
    "ext.header",
    "ext.object",
    "mpls.stack",
    "mpls.member",
];

/// Bound on iterator items over `n` octets.
fn cap(n: usize) -> usize {
    n / 4 + 1
}

fn inside(outer: &[u8], inner: &[u8]) -> bool {
    if inner.is_empty() {
        return true;
    }
    let (o, i) = (outer.as_ptr() as usize, inner.as_ptr() as usize);
    i >= o && i + inner.len() <= o + outer.len()
}

/// Call every public read accessor of the view `ty` over `buf`.  Panics propagate to the caller.
pub fn touch(ty: &str, buf: &[u8]) -> CheckResult {
    macro_rules! ensure_inside {
        ($s:expr, $what:expr) => {
            vensure!(inside(buf, $s), format!("{ty}:{}-outside", $what), "{ty}: {}() lies outside the {}-octet buffer", $what, buf.len());
        };
    }
    macro_rules! icmp_err {
        ($P:ty) => {{
            let Ok(p) = <$P>::new_view(buf) else { return Ok(()) };
            let _ = (p.get_icmp_type(), p.get_icmp_code(), p.get_checksum(), p.get_length());
            let pl = p.payload();
            ensure_inside!(pl, "payload");
            ensure_inside!(p.payload_raw(), "payload_raw");
            if let Some(e) = p.extension() {
                ensure_inside!(e, "extension");
                let (a, b) = (pl.as_ptr() as usize + pl.len(), e.as_ptr() as usize);
                vensure!(pl.is_empty() || a <= b, format!("{ty}:overlap"), "{ty}: payload and extension overlap");
            }
            let _ = format!("{p:?}");
        }};
    }
    macro_rules! icmp_echo {
        ($P:ty) => {{
            let Ok(p) = <$P>::new_view(buf) else { return Ok(()) };
            let _ = (p.get_icmp_type(), p.get_icmp_code(), p.get_checksum(), p.get_identifier(), p.get_sequence());
            ensure_inside!(p.payload(), "payload");
            let _ = format!("{p:?}");
        }};
    }
    match ty {
        "ipv4" => {
            let Ok(p) = Ipv4Packet::new_view(buf) else { return Ok(()) };
            let _ = (p.get_version(), p.get_header_length(), p.get_dscp(), p.get_ecn(), p.get_tos(), p.get_total_length());
            let _ = (p.get_identification(), p.get_flags_and_fragment_offset(), p.get_ttl(), p.get_protocol(), p.get_checksum());
            let _ = (p.get_source(), p.get_destination());
            ensure_inside!(p.get_options_raw(), "get_options_raw");
            ensure_inside!(p.payload(), "payload");
            let _ = format!("{p:?}");
        }
        "ipv6" => {
            let Ok(p) = Ipv6Packet::new_view(buf) else { return Ok(()) };
            let _ = (p.get_version(), p.get_traffic_class(), p.get_flow_label(), p.get_payload_length(), p.get_next_header(), p.get_hop_limit());
            let _ = (p.get_source_address(), p.get_destination_address());
            ensure_inside!(p.payload(), "payload");
            let _ = format!("{p:?}");
        }
        "udp" => {
            let Ok(p) = UdpPacket::new_view(buf) else { return Ok(()) };
            let _ = (p.get_source(), p.get_destination(), p.get_length(), p.get_checksum());
            ensure_inside!(p.payload(), "payload");
            let _ = format!("{p:?}");
        }
        "tcp" => {
            let Ok(p) = TcpPacket::new_view(buf) else { return Ok(()) };
            let _ = (p.get_source(), p.get_destination(), p.get_sequence(), p.get_acknowledgement(), p.get_data_offset(), p.get_reserved());
            let _ = (p.get_flags(), p.get_window_size(), p.get_checksum(), p.get_urgent_pointer());
            ensure_inside!(p.get_options_raw(), "get_options_raw");
            ensure_inside!(p.payload(), "payload");
            let _ = format!("{p:?}");
        }
        "icmpv4" => {
            let Ok(p) = icmpv4::IcmpPacket::new_view(buf) else { return Ok(()) };
            let _ = (p.get_icmp_type(), p.get_icmp_code(), p.get_checksum(), p.packet().len());
            let _ = format!("{p:?}");
        }
        "icmpv6" => {
            let Ok(p) = icmpv6::IcmpPacket::new_view(buf) else { return Ok(()) };
            let _ = (p.get_icmp_type(), p.get_icmp_code(), p.get_checksum(), p.packet().len());
            let _ = format!("{p:?}");
        }
        "icmpv4.echo_request" => icmp_echo!(icmpv4::echo_request::EchoRequestPacket<'_>),
        "icmpv4.echo_reply" => icmp_echo!(icmpv4::echo_reply::EchoReplyPacket<'_>),
        "icmpv6.echo_request" => icmp_echo!(icmpv6::echo_request::EchoRequestPacket<'_>),
        "icmpv6.echo_reply" => icmp_echo!(icmpv6::echo_reply::EchoReplyPacket<'_>),
        "icmpv4.time_exceeded" => icmp_err!(icmpv4::time_exceeded::TimeExceededPacket<'_>),
        "icmpv4.destination_unreachable" => {
            icmp_err!(icmpv4::destination_unreachable::DestinationUnreachablePacket<'_>);
            if let Ok(p) = icmpv4::destination_unreachable::DestinationUnreachablePacket::new_view(buf) {
                let _ = p.get_next_hop_mtu();
            }
        }
        "icmpv6.time_exceeded" => icmp_err!(icmpv6::time_exceeded::TimeExceededPacket<'_>),
        "icmpv6.destination_unreachable" => {
            icmp_err!(icmpv6::destination_unreachable::DestinationUnreachablePacket<'_>);
            if let Ok(p) = icmpv6::destination_unreachable::DestinationUnreachablePacket::new_view(buf) {
                let _ = p.get_next_hop_mtu();
            }
        }
        "ext.structure" => {
            let Ok(p) = ExtensionsPacket::new_view(buf) else { return Ok(()) };
            ensure_inside!(p.header(), "header");
            let mut n = 0;
            for o in p.objects() {
                n += 1;
                vensure!(n <= cap(buf.len()), format!("{ty}:iterator-runaway"), "{ty}: objects() yielded {n} items over {} octets", buf.len());
                ensure_inside!(o, "objects");
            }
        }
        "ext.header" => {
            let Ok(p) = ExtensionHeaderPacket::new_view(buf) else { return Ok(()) };
            let _ = (p.get_version(), p.get_checksum(), p.packet().len());
            let _ = format!("{p:?}");
        }
        "ext.object" => {
            let Ok(p) = ExtensionObjectPacket::new_view(buf) else { return Ok(()) };
            let _ = (p.get_length(), p.get_class_num(), p.get_class_subtype(), p.packet().len());
            ensure_inside!(p.payload(), "payload");
            let _ = format!("{p:?}");
        }
        "mpls.stack" => {
            let Ok(p) = MplsLabelStackPacket::new_view(buf) else { return Ok(()) };
            let mut n = 0;
            for m in p.members() {
                n += 1;
                vensure!(n <= cap(buf.len()), format!("{ty}:iterator-runaway"), "{ty}: members() yielded {n} items over {} octets", buf.len());
                ensure_inside!(m, "members");
            }
        }
        "mpls.member" => {
            let Ok(p) = MplsLabelStackMemberPacket::new_view(buf) else { return Ok(()) };
            let _ = (p.get_label(), p.get_exp(), p.get_bos(), p.get_ttl());
            let _ = format!("{p:?}");
        }
        other => vfail!("unknown-type", "unknown view type {other}"),
    }
    Ok(())
}

pub fn min_size(ty: &str) -> usize {
    match ty {
        "ipv4" | "tcp" => 20,
        "ipv6" => 40,
        t if t.starts_with("ext.") || t.starts_with("mpls.") => 4,
        _ => 8,
    }
}

/// Octets whose every value is enumerated against every buffer length (the length / offset
/// fields of the view).
fn hot_bytes(ty: &str) -> Vec<usize> {
    match ty {
        "ipv4" => vec![0],
        "ipv6" => vec![4, 5],
        "tcp" => vec![12],
        "udp" => vec![4, 5],
        "icmpv4.time_exceeded" | "icmpv4.destination_unreachable" => vec![5],
        "icmpv6.time_exceeded" | "icmpv6.destination_unreachable" => vec![4],
        "ext.object" | "ext.structure" => vec![0, 1],
        "mpls.stack" | "mpls.member" => vec![2],
        _ => vec![0],
    }
}

#[derive(Clone, Debug, Serialize, Deserialize)]
pub struct ViewSweep {
    pub ty: String,
}

fn view_cases(_t: Tier) -> Vec<ViewSweep> {
    VIEW_TYPES.iter().map(|t| ViewSweep { ty: (*t).to_string() }).collect()
}

/// Run `touch` under catch_unwind, keeping the failing input.
fn touch_caught(ty: &str, buf: &[u8]) -> CheckResult {
    match catch(|| touch(ty, buf)) {
        Ok(r) => r,
        Err(p) => Err(Fail::new(
            format!("{ty}:{}", panic_sig(&p)),
            format!("{ty}: accessor panicked over a {}-octet buffer {:02x?}...: {p}", buf.len(), &buf[..buf.len().min(24)]),
        )),
    }
}

fn view_sweep(c: &ViewSweep, obs: &mut Obs) -> CheckResult {
    let ty = c.ty.as_str();
    let min = min_size(ty);
    let hot = hot_bytes(ty);
    let mut n = 0u64;
    // field value x buffer length, over three background fills
    let lens: Vec<usize> = (min..=min + 200).chain([300, 511, 512, 600, 1023, 1024]).collect();
    let values: Vec<u32> = if hot.len() == 2 {
        (0..=300u32).chain([511, 512, 1000, 1023, 1024, 1025, 4095, 4096, 32767, 32768, 65534, 65535]).chain((0..65536).step_by(251)).collect()
    } else {
        (0..256).collect()
    };
    for fill in [0x00u8, 0xff, 0x25] {
        for &len in &lens {
            let mut buf = vec![fill; len];
            if fill == 0x25 {
                for (i, b) in buf.iter_mut().enumerate() {
                    *b = (mix(len as u64, i as u64) >> 11) as u8;
                }
            }
            for &v in &values {
                if hot.len() == 2 {
                    buf[hot[0]] = (v >> 8) as u8;
                    buf[hot[1]] = v as u8;
                } else {
                    buf[hot[0]] = v as u8;
                }
                touch_caught(ty, &buf)?;
                n += 1;
            }
        }
    }
    obs.extra_evals = n - 1;
    obs.nontrivial(&ty);
    obs.sample(json!({"view": ty, "hot_octets": hot, "buffers": n}));
    Ok(())
}

#[derive(Clone, Debug, Serialize, Deserialize)]
pub struct ViewCase {
    pub ty: String,
    pub buf: Vec<u8>,
}

fn view_strat() -> BoxedStrategy<ViewCase> {
    (0usize..VIEW_TYPES.len(), 0usize..=96, any::<u64>(), 0u8..5)
        .prop_map(|(t, extra, seed, mode)| {
            let ty = VIEW_TYPES[t];
            let len = min_size(ty) + extra;
            let buf: Vec<u8> = match mode {
                0 => vec![0u8; len],
                1 => vec![0xff; len],
                // small values: plausible lengths / offsets
                2 => (0..len).map(|i| (mix(seed, i as u64) % 9) as u8).collect(),
                _ => (0..len).map(|i| (mix(seed, i as u64) >> 17) as u8).collect(),
            };
            ViewCase { ty: ty.to_string(), buf }
        })
        .boxed()
}

fn view_test(c: &ViewCase, obs: &mut Obs) -> CheckResult {
    touch_caught(&c.ty, &c.buf)?;
    obs.nontrivial(&(c.ty.as_str(), hash64(&c.buf)));
    obs.class(format!("view:{}", c.ty));
    obs.sample(json!({"view": c.ty, "len": c.buf.len()}));
    Ok(())
}

// ---------------------------------------------------------------------------------------------
// (a) receive path: corrupted genuine responses

#[derive(Clone, Copy, Debug, PartialEq, Eq, Hash, Serialize, Deserialize)]
pub enum Sel {
    OuterVerIhl,
    OuterTotalLen,
    OuterProto,
    IcmpType,
    IcmpCode,
    Rfc4884Len,
    QuotedVerIhl,
    QuotedTotalLen,
    QuotedProto,
    QuotedV6PayloadLen,
    QuotedV6NextHeader,
    L4Word0,
    L4Word1,
    /// UDP length / TCP sequence high half
    L4Word2,
    /// UDP checksum
    L4Word3,
    TcpDataOffset,
    ExtVerAndObjLen,
    ExtObjLen,
    ExtObjClass,
    MagicByte,
    Any(u16),
}

#[derive(Clone, Debug, Serialize, Deserialize)]
pub struct Mutn {
    pub sel: Sel,
    pub val: u16,
}

/// Byte offset (and width 1 or 2) of a selector inside a captured response.
/// `v6`: the bytes are an ICMPv6 message (no outer IP header); otherwise a full IPv4 datagram.
pub fn locate(bytes: &[u8], v6: bool, sel: Sel) -> Option<(usize, usize)> {
    let icmp = if v6 { 0 } else { usize::from(bytes.first()? & 0xf) * 4 };
    let q = icmp + 8;
    let qhl = if v6 { 40 } else { usize::from(bytes.get(q)? & 0xf).max(5) * 4 };
    let l4 = q + qhl;
    let ext = q + 128;
    let r = match sel {
        Sel::OuterVerIhl if !v6 => (0, 1),
        Sel::OuterTotalLen if !v6 => (2, 2),
        Sel::OuterProto if !v6 => (9, 1),
        Sel::IcmpType => (icmp, 1),
        Sel::IcmpCode => (icmp + 1, 1),
        Sel::Rfc4884Len => (if v6 { icmp + 4 } else { icmp + 5 }, 1),
        Sel::QuotedVerIhl => (q, 1),
        Sel::QuotedTotalLen if !v6 => (q + 2, 2),
        Sel::QuotedProto if !v6 => (q + 9, 1),
        Sel::QuotedV6PayloadLen if v6 => (q + 4, 2),
        Sel::QuotedV6NextHeader if v6 => (q + 6, 1),
        Sel::L4Word0 => (l4, 2),
        Sel::L4Word1 => (l4 + 2, 2),
        Sel::L4Word2 => (l4 + 4, 2),
        Sel::L4Word3 => (l4 + 6, 2),
        Sel::TcpDataOffset => (l4 + 12, 1),
        Sel::ExtVerAndObjLen => (ext, 1),
        Sel::ExtObjLen => (ext + 4, 2),
        Sel::ExtObjClass => (ext + 6, 1),
        Sel::MagicByte => (l4 + 8, 1),
        Sel::Any(p) => (usize::from(p) % bytes.len().max(1), 1),
        _ => return None,
    };
    (r.0 + r.1 <= bytes.len()).then_some(r)
}

pub fn apply(bytes: &mut Vec<u8>, v6: bool, m: &Mutn) {
    if let Some((off, w)) = locate(bytes, v6, m.sel) {
        if w == 2 {
            bytes[off..off + 2].copy_from_slice(&m.val.to_be_bytes());
        } else {
            bytes[off] = m.val as u8;
        }
    }
}

#[derive(Clone, Debug, Serialize, Deserialize)]
pub struct RecvCase {
    pub sim: SimCase,
    pub pick: u16,
    pub muts: Vec<Mutn>,
    pub truncate: Option<u16>,
}

fn interesting_val() -> BoxedStrategy<u16> {
    prop_oneof![
        4 => 0u16..=16,
        2 => prop_oneof![Just(0x45u16), Just(0x46), Just(0x4f), Just(0x40), Just(0x60), Just(0xf5), Just(0xff), Just(0x20), Just(0x2f)],
        2 => prop_oneof![Just(255u16), Just(256), Just(1023), Just(1024), Just(32767), Just(32768), Just(65534), Just(65535)],
        2 => any::<u16>(),
        1 => prop_oneof![Just(1u16), Just(3), Just(6), Just(11), Just(17), Just(58), Just(128), Just(129)],
    ]
    .boxed()
}

fn sel_strat() -> BoxedStrategy<Sel> {
    prop_oneof![
        Just(Sel::OuterVerIhl),
        Just(Sel::OuterTotalLen),
        Just(Sel::OuterProto),
        Just(Sel::IcmpType),
        Just(Sel::IcmpCode),
        Just(Sel::Rfc4884Len),
        Just(Sel::QuotedVerIhl),
        Just(Sel::QuotedTotalLen),
        Just(Sel::QuotedProto),
        Just(Sel::QuotedV6PayloadLen),
        Just(Sel::QuotedV6NextHeader),
        Just(Sel::L4Word0),
        Just(Sel::L4Word1),
        Just(Sel::L4Word2),
        Just(Sel::L4Word3),
        Just(Sel::TcpDataOffset),
        Just(Sel::ExtVerAndObjLen),
        Just(Sel::ExtObjLen),
        Just(Sel::ExtObjClass),
        Just(Sel::MagicByte),
        any::<u16>().prop_map(Sel::Any),
    ]
    .boxed()
}

fn recv_strat() -> BoxedStrategy<RecvCase> {
    let base = sim_case(&GenOpts {
        supported_only: true,
        sending_only: true,
        loss: false,
        dups: false,
        late: false,
        max_hops: 5,
        long_path_pct: 0,
        rounds: (1, 2),
        ecmp: false,
        firewall: true,
        ..GenOpts::default()
    });
    (
        base,
        any::<u16>(),
        proptest::collection::vec((sel_strat(), interesting_val()).prop_map(|(sel, val)| Mutn { sel, val }), 0..=4),
        prop_oneof![2 => Just(None), 1 => any::<u16>().prop_map(Some)],
    )
        .prop_map(|(mut sim, pick, muts, truncate)| {
            sim.cfg.max_ttl = sim.cfg.max_ttl.min(sim.cfg.first_ttl.saturating_add(8));
            RecvCase { sim, pick, muts, truncate }
        })
        .boxed()
}

pub fn channel_config(cfg: &TraceCfg) -> ChannelConfig {
    ChannelConfig {
        privilege_mode: if cfg.privileged { PrivilegeMode::Privileged } else { PrivilegeMode::Unprivileged },
        protocol: cfg.protocol(),
        source_addr: cfg.src_addr(),
        target_addr: cfg.target_addr(),
        packet_size: PacketSize(cfg.packet_size),
        payload_pattern: PayloadPattern(cfg.pattern),
        initial_sequence: Sequence(cfg.initial_sequence),
        tos: TypeOfService(cfg.tos),
        icmp_extension_parse_mode: if cfg.ext_enabled { IcmpExtensionParseMode::Enabled } else { IcmpExtensionParseMode::Disabled },
        read_timeout: Duration::from_nanos(cfg.read_timeout_ns.max(1)),
        tcp_connect_timeout: Duration::from_nanos(cfg.tcp_connect_timeout_ns),
    }
}

/// Deliver `packets` straight to `Channel::recv_probe` (ICMP socket of the simulated channel).
/// Returns how many were parsed into a response / rejected with an error / ignored.
pub fn deliver_direct(cfg: &TraceCfg, packets: &[(Vec<u8>, IpAddr)]) -> Result<(usize, usize, usize), Fail> {
    vclock::enable(crate::simnet::run::START_NS);
    world::install(World::new(cfg.clone(), WorldSpec::simple(0)));
    let out = catch(|| -> Result<(usize, usize, usize), String> {
        let mut ch = Channel::<SimSocket>::connect(&channel_config(cfg)).map_err(|e| e.to_string())?;
        let (mut some, mut err, mut none) = (0, 0, 0);
        for (bytes, from) in packets {
            world::with(|w| {
                w.clear_log();
                w.inject_now(bytes.clone(), *from);
            });
            match ch.recv_probe() {
                Ok(Some(_)) => some += 1,
                Ok(None) => none += 1,
                Err(_) => err += 1,
            }
        }
        Ok((some, err, none))
    });
    let _ = world::take();
    vclock::disable();
    match out {
        Ok(Ok(r)) => Ok(r),
        Ok(Err(e)) => Err(Fail::new("connect", format!("Channel::connect failed: {e}"))),
        Err(p) => Err(Fail::new(panic_sig(&p), format!("recv_probe panicked: {p}"))),
    }
}

fn recv_test(c: &RecvCase, obs: &mut Obs) -> CheckResult {
    let cfg = &c.sim.cfg;
    // 1. a clean run to capture genuine responses of this configuration
    let base = run_trace_with(cfg, &c.sim.world, |w| w.capture = true);
    if base.build_error.is_some() {
        obs.excluded("builder-rejected");
        return Ok(());
    }
    if let Some(p) = &base.panic {
        vfail!(panic_sig(p), "tracer panicked on an unmodified run: {p}");
    }
    if base.captured.is_empty() {
        obs.excluded("no response captured");
        return Ok(());
    }
    let idx = usize::from(c.pick) * base.captured.len() >> 16;
    let orig = &base.captured[idx];
    let mut bytes = orig.bytes.clone();
    for m in &c.muts {
        apply(&mut bytes, cfg.v6, m);
    }
    if let Some(t) = c.truncate {
        let keep = usize::from(t) % (bytes.len() + 1);
        bytes.truncate(keep);
    }
    // 2. straight into Channel::recv_probe
    let (some, err, _none) = deliver_direct(cfg, &[(bytes.clone(), orig.from)])?;
    // 3. into a running Strategy, at the instant the genuine one arrived (reaches the
    //    StrategyResponse conversion and complete_probe)
    let mut world2 = c.sim.world.clone();
    world2.raw = vec![RawInj { at_ns: orig.at_ns.saturating_sub(1), bytes: bytes.clone(), from: orig.from, label: "malformed".into() }];
    let log = run_trace(cfg, &world2);
    if let Some(p) = &log.panic {
        vfail!(panic_sig(p), "tracer panicked on a malformed packet: {p}");
    }
    if let Some(a) = &log.aborted {
        vfail!("abort", "run did not terminate: {a}");
    }
    obs.class(format!("{:?}/{}", cfg.protocol, if cfg.v6 { "v6" } else { "v4" }));
    obs.class(if some > 0 {
        "parsed-as-response"
    } else if err > 0 {
        "rejected-with-error"
    } else {
        "ignored"
    });
    if bytes != orig.bytes {
        obs.class("mutated");
        obs.nontrivial(&(cfg.cell(), cfg.ext_enabled, hash64(&bytes), some, err));
    }
    obs.sample(json!({"cfg": cfg.cell(), "ext_enabled": cfg.ext_enabled, "len": bytes.len(), "mutations": c.muts.len(), "truncated": c.truncate.is_some(),
        "outcome": if some > 0 { "response" } else if err > 0 { "error" } else { "none" }}));
    Ok(())
}

// ---------------------------------------------------------------------------------------------
// (b) exhaustive length-field x buffer-length sweep through recv_probe

#[derive(Clone, Debug, Serialize, Deserialize)]
pub struct SweepCell {
    pub cfg: TraceCfg,
    pub sel: Sel,
}

fn sweep_cfgs() -> Vec<TraceCfg> {
    let mut v = vec![];
    for v6 in [false, true] {
        for ext_enabled in [false, true] {
            let mk = |protocol, strategy, ports| TraceCfg {
                v6,
                ext_enabled,
                protocol,
                strategy,
                ports,
                first_ttl: 1,
                max_ttl: 4,
                max_rounds: 1,
                packet_size: 200,
                pattern: 0x2f,
                read_timeout_ns: 1_000_000,
                min_round_ns: 20_000_000,
                max_round_ns: 20_000_000,
                grace_ns: 1_000_000,
                ..TraceCfg::default()
            };
            v.push(mk(Proto::Icmp, Strat::Classic, Ports::None));
            v.push(mk(Proto::Udp, Strat::Classic, Ports::FixedSrc(5000)));
            v.push(mk(Proto::Udp, Strat::Paris, Ports::FixedDest(33000)));
            v.push(mk(Proto::Udp, Strat::Dublin, Ports::FixedBoth(5000, 33000)));
            v.push(mk(Proto::Tcp, Strat::Classic, Ports::FixedDest(80)));
        }
    }
    v
}

const SWEEP_SELS: [Sel; 15] = [
    Sel::OuterVerIhl,
    Sel::OuterTotalLen,
    Sel::IcmpType,
    Sel::Rfc4884Len,
    Sel::QuotedVerIhl,
    Sel::QuotedTotalLen,
    Sel::QuotedProto,
    Sel::QuotedV6PayloadLen,
    Sel::QuotedV6NextHeader,
    Sel::L4Word2,
    Sel::TcpDataOffset,
    Sel::ExtVerAndObjLen,
    Sel::ExtObjLen,
    Sel::ExtObjClass,
    Sel::MagicByte,
];

fn sweep_cases(_t: Tier) -> Vec<SweepCell> {
    let mut out = vec![];
    for cfg in sweep_cfgs() {
        for sel in SWEEP_SELS {
            out.push(SweepCell { cfg: cfg.clone(), sel });
        }
    }
    out
}

fn sweep_world() -> WorldSpec {
    let mut w = WorldSpec::simple(2);
    // hop 1: legacy extension with an MPLS stack and a second object; hop 2: compliant, long quote
    w.paths[0].hops[0].quote = Quote::Full;
    w.paths[0].hops[0].ext = Some(ExtSpec {
        structure: crate::wire::ExtStructure {
            version: 2,
            objects: vec![
                crate::wire::ExtObject::Mpls(vec![
                    crate::wire::MplsMember { label: 5, exp: 1, bos: 0, ttl: 9 },
                    crate::wire::MplsMember { label: 6, exp: 2, bos: 1, ttl: 8 },
                ]),
                crate::wire::ExtObject::Other { class: 2, ctype: 1, data: vec![1, 2, 3, 4] },
            ],
        },
        style: crate::wire::ExtStyle::Legacy,
    });
    w.paths[0].hops[1].quote = Quote::Full;
    w.paths[0].hops[1].set_len = true;
    w.paths[0].hops[1].ext = Some(ExtSpec {
        structure: crate::wire::ExtStructure {
            version: 2,
            objects: vec![crate::wire::ExtObject::Mpls(vec![crate::wire::MplsMember { label: 77, exp: 7, bos: 1, ttl: 1 }])],
        },
        style: crate::wire::ExtStyle::Compliant,
    });
    w.target.node.quote = Quote::Min;
    w
}

fn sweep_test(c: &SweepCell, obs: &mut Obs) -> CheckResult {
    let base = run_trace_with(&c.cfg, &sweep_world(), |w| w.capture = true);
    if let Some(p) = &base.panic {
        vfail!(panic_sig(p), "tracer panicked on an unmodified run: {p}");
    }
    vensure!(!base.captured.is_empty(), "sweep-no-capture", "no response captured for {}", c.cfg.cell());
    let two = matches!(c.sel, Sel::OuterTotalLen | Sel::QuotedTotalLen | Sel::QuotedV6PayloadLen | Sel::L4Word2 | Sel::ExtObjLen);
    let values: Vec<u16> = if two {
        // dense around the receive buffer (1024) and the internal payload / packet buffers (976, 996, 1004)
        (0..=64u16).chain([100, 127, 128, 129, 136, 200, 255, 256, 257, 511, 512]).chain(940..=1070).chain([4096, 32767, 32768, 65527, 65528, 65534, 65535]).collect()
    } else {
        (0..=255).collect()
    };
    let mut n = 0u64;
    let mut reached = 0u64;
    vclock::enable(crate::simnet::run::START_NS);
    world::install(World::new(c.cfg.clone(), WorldSpec::simple(0)));
    let res = (|| -> CheckResult {
        let mut ch = match catch(|| Channel::<SimSocket>::connect(&channel_config(&c.cfg))) {
            Ok(Ok(ch)) => ch,
            _ => vfail!("connect", "Channel::connect failed"),
        };
        // distinct response shapes: at most one per (responder, length)
        let mut seen = std::collections::HashSet::new();
        for cap in &base.captured {
            if !seen.insert((cap.from, cap.bytes.len())) {
                continue;
            }
            if locate(&cap.bytes, c.cfg.v6, c.sel).is_none() {
                continue;
            }
            let full = cap.bytes.len();
            let lens: Vec<usize> = (0..=full.min(220)).chain((full.saturating_sub(12)..=full).filter(|l| *l > 220)).collect();
            for &v in &values {
                let mut b = cap.bytes.clone();
                apply(&mut b, c.cfg.v6, &Mutn { sel: c.sel, val: v });
                for &l in &lens {
                    let pkt = b[..l].to_vec();
                    world::with(|w| {
                        w.clear_log();
                        w.inject_now(pkt, cap.from);
                    });
                    match catch(|| ch.recv_probe()) {
                        Ok(Ok(Some(_))) => reached += 1,
                        Ok(_) => {}
                        Err(p) => {
                            vfail!(
                                format!("{:?}:{}", c.sel, panic_sig(&p)),
                                "{} ext={}: recv_probe panicked with {:?}={v} and the packet cut to {l} of {full} octets: {p}",
                                c.cfg.cell(),
                                c.cfg.ext_enabled,
                                c.sel
                            );
                        }
                    }
                    n += 1;
                }
            }
        }
        Ok(())
    })();
    let _ = world::take();
    vclock::disable();
    res?;
    if n > 0 {
        obs.extra_evals = n - 1;
        obs.nontrivial(&(c.cfg.cell(), c.cfg.ext_enabled, c.sel));
        if reached > 0 {
            obs.class("some-parsed-as-response");
        }
        obs.sample(json!({"cfg": c.cfg.cell(), "ext_enabled": c.cfg.ext_enabled, "field": format!("{:?}", c.sel), "deliveries": n, "parsed_as_response": reached}));
    } else {
        obs.excluded("field absent in this cell");
    }
    Ok(())
}

/// Entry point of the libFuzzer target `recv_path`.
pub fn fuzz_recv(sel: u8, packet: &[u8]) {
    let cfgs = sweep_cfgs();
    let cfg = &cfgs[usize::from(sel) % cfgs.len()];
    let from = host_addr(cfg.v6, 7);
    // straight into recv_probe (a panic aborts the fuzzer: no catch_unwind on this path)
    vclock::enable(crate::simnet::run::START_NS);
    world::install(World::new(cfg.clone(), WorldSpec::simple(0)));
    if let Ok(mut ch) = Channel::<SimSocket>::connect(&channel_config(cfg)) {
        world::with(|w| w.inject_now(packet.to_vec(), from));
        let _ = ch.recv_probe();
    }
    let _ = world::take();
    vclock::disable();
    // and into a running Strategy while the first probes are awaited
    let mut w = WorldSpec::simple(1);
    w.paths[0].hops[0].delay_ns = 3_000_000;
    w.target.node.delay_ns = 3_000_000;
    w.raw = vec![RawInj { at_ns: 1_000_000, bytes: packet.to_vec(), from, label: "fuzz".into() }];
    let tracer = match cfg.build() {
        Ok(t) => t,
        Err(_) => return,
    };
    vclock::enable(crate::simnet::run::START_NS);
    world::install(World::new(cfg.clone(), w));
    let _ = tracer.verif_run_with_socket::<SimSocket, _>(cfg.src_addr(), |_| {});
    let _ = world::take();
    vclock::disable();
}

/// Seed corpus for `recv_path`: genuine responses of every sweep configuration.
pub fn fuzz_corpus() -> Vec<Vec<u8>> {
    let mut out = vec![];
    for (i, cfg) in sweep_cfgs().iter().enumerate() {
        let log = run_trace_with(cfg, &sweep_world(), |w| w.capture = true);
        let mut seen = std::collections::HashSet::new();
        for c in &log.captured {
            if seen.insert((c.from, c.bytes.len())) {
                let mut v = vec![i as u8];
                v.extend(&c.bytes);
                out.push(v);
            }
        }
    }
    out
}

/// Thorough tier only: coverage-guided campaigns of the two cargo-fuzz targets.
pub struct LibFuzzer;

fn replay_artifact(path: &str, bytes: &[u8]) -> CheckResult {
    if bytes.is_empty() {
        return Ok(());
    }
    let r = if path.contains("codec_views") {
        let ty = VIEW_TYPES[usize::from(bytes[0]) % VIEW_TYPES.len()];
        catch(|| touch(ty, &bytes[1..]))
    } else {
        if bytes.len() < 2 {
            return Ok(());
        }
        catch(|| {
            fuzz_recv(bytes[0], &bytes[1..]);
            Ok(())
        })
    };
    let _ = world::take();
    vclock::disable();
    match r {
        Ok(r) => r,
        Err(p) => Err(Fail::new(panic_sig(&p), format!("fuzz input {path} panics: {p}"))),
    }
}

impl SubCheck for LibFuzzer {
    fn name(&self) -> &str {
        "libfuzzer"
    }
    fn run(&self, ctx: &Ctx, rep: &Report) {
        if ctx.tier != Tier::Thorough {
            rep.note("libfuzzer: coverage-guided campaigns run in the thorough tier only");
            return;
        }
        let t0 = std::time::Instant::now();
        let fuzz_dir = ctx.verif_dir.join("fuzz");
        let harness_dir = ctx.verif_dir.join("harness");
        let corpus = ctx.out_dir.join("fuzz-corpus");
        let art = ctx.out_dir.join("replays");
        let _ = std::fs::create_dir_all(&art);
        let build = std::process::Command::new("cargo")
            .args(["+nightly", "fuzz", "build", "-O", "--fuzz-dir"])
            .arg(&fuzz_dir)
            .current_dir(&harness_dir)
            .env("CARGO_NET_OFFLINE", "true")
            .output();
        match build {
            Ok(o) if o.status.success() => {}
            Ok(o) => {
                rep.note(format!("libfuzzer: build failed (inconclusive): {}", String::from_utf8_lossy(&o.stderr).lines().rev().take(5).collect::<Vec<_>>().join(" | ")));
                return;
            }
            Err(e) => {
                rep.note(format!("libfuzzer: cannot start cargo fuzz (inconclusive): {e}"));
                return;
            }
        }
        let runs = (ctx.cases(0, 1_500_000)).to_string();
        for target in ["recv_path", "codec_views"] {
            let cdir = corpus.join(target);
            let _ = std::fs::remove_dir_all(&cdir);
            let _ = std::fs::create_dir_all(&cdir);
            if target == "recv_path" {
                for (i, b) in fuzz_corpus().iter().enumerate() {
                    let _ = std::fs::write(cdir.join(format!("seed-{i:04}")), b);
                }
            } else {
                for (i, ty) in VIEW_TYPES.iter().enumerate() {
                    let mut v = vec![i as u8];
                    v.extend((0..min_size(ty) + 24).map(|k| (mix(i as u64, k as u64) >> 9) as u8));
                    let _ = std::fs::write(cdir.join(format!("seed-{i:04}")), v);
                }
            }
            let prefix = format!("{}/fuzz-{target}-", art.display());
            let n = if target == "codec_views" { format!("{}", ctx.cases(0, 20_000_000)) } else { runs.clone() };
            let out = std::process::Command::new("cargo")
                .args(["+nightly", "fuzz", "run", "-O", "--fuzz-dir"])
                .arg(&fuzz_dir)
                .arg(target)
                .arg(&cdir)
                .arg("--")
                .arg(format!("-runs={n}"))
                .arg(format!("-seed={}", (ctx.seed % 0xffff_ffff).max(1)))
                .args(["-max_len=1100", "-len_control=0", "-print_final_stats=1"])
                .arg(format!("-artifact_prefix={prefix}"))
                .current_dir(&harness_dir)
                .env("CARGO_NET_OFFLINE", "true")
                .output();
            let Ok(out) = out else {
                rep.note(format!("libfuzzer/{target}: could not run (inconclusive)"));
                continue;
            };
            let err = String::from_utf8_lossy(&out.stderr);
            let execs = err
                .lines()
                .find_map(|l| l.strip_prefix("stat::number_of_executed_units:").map(|x| x.trim().parse::<u64>().unwrap_or(0)))
                .unwrap_or(0);
            rep.inner.lock().unwrap().evaluations += execs;
            rep.sub_summary(json!({"sub": format!("libfuzzer/{target}"), "kind": "coverage-guided fuzzing", "executions": execs, "exit_ok": out.status.success(), "wall_s": t0.elapsed().as_secs_f64()}));
            if !out.status.success() {
                // a crash artifact is only a violation if it reproduces in the harness profile
                let mut found = false;
                if let Ok(rd) = std::fs::read_dir(&art) {
                    for e in rd.filter_map(Result::ok) {
                        let p = e.path();
                        let name = p.file_name().and_then(|n| n.to_str()).unwrap_or("").to_string();
                        if !name.starts_with(&format!("fuzz-{target}-")) {
                            continue;
                        }
                        let Ok(bytes) = std::fs::read(&p) else { continue };
                        if let Err(f) = replay_artifact(&p.display().to_string(), &bytes) {
                            found = true;
                            let mut r = rep.inner.lock().unwrap();
                            if !r.violations.iter().any(|v| v.sig == f.sig) {
                                r.violations.push(Violation { sub: format!("libfuzzer/{target}"), sig: f.sig.clone(), msg: f.msg.clone(), replay: p.display().to_string() });
                            }
                        }
                    }
                }
                if !found {
                    rep.note(format!("libfuzzer/{target}: exited with {:?} without a reproducible crash (inconclusive): {}", out.status.code(), err.lines().rev().take(3).collect::<Vec<_>>().join(" | ")));
                }
            }
        }
    }
    fn replay(&self, _case: &serde_json::Value) -> CheckResult {
        Ok(())
    }
}

/// Replay a raw libFuzzer artifact (not a JSON replay file).
pub fn replay_raw(path: &str) -> Option<CheckResult> {
    let bytes = std::fs::read(path).ok()?;
    if serde_json::from_slice::<serde_json::Value>(&bytes).is_ok() {
        return None;
    }
    Some(replay_artifact(path, &bytes))
}

pub fn check() -> PropertyCheck {
    PropertyCheck {
        id: "C04",
        level: "exploration",
        rule: "view-sweep: for each of the 19 packet views, every value of its length/offset octet(s) (all 256, or 0..300 + boundaries + every 251st of 65536 for two-octet fields) x every buffer length min..min+200 (+ 300..1024 boundaries) x 3 background fills, all public read accessors / payload / extension / iterators / Debug called under catch_unwind, returned slices must lie inside the buffer, iterators within len/4+1 items. view-pbt: random buffers. recv-corrupt: a genuine response captured from a simulated run of a generated configuration is corrupted at up to 4 named length/offset/type fields (outer and quoted IHL, total lengths, protocol, UDP length/checksum, TCP data offset, RFC 4884 length, extension version / object length / class, Dublin marker, arbitrary octet) and/or truncated, then delivered to Channel::recv_probe and into a running Strategy at the instant the genuine response arrived. recv-sweep: for 20 configurations (protocol x family x extension mode x UDP strategy) x 15 fields: every value (all 256; for 16-bit fields 0..=64, every value 940..=1070 around the 1024-octet receive buffer and the internal 976 / 996 / 1004-octet buffers, and 18 boundary values) x every truncation length 0..=220 of three response shapes through recv_probe. Oracle: a value (response, nothing, error) comes back; no panic, no arithmetic overflow (overflow checks on). evaluations count deliveries / buffers",
        assumptions: vec![
            "setters with out-of-range payload arguments are a caller error and not exercised; debug assertions are compiled out as in the shipped binary",
        ],
        subs: vec![
            Box::new(Enumerated {
                name: "view-sweep",
                exhaustive_note: Some("length/offset octet value x buffer length grid for every view"),
                cases: view_cases,
                test: view_sweep,
            }),
            Box::new(Pbt { name: "view-pbt", quick: 200_000, thorough: 20_000_000, strat: view_strat, test: view_test, max_shrink: 5000 }),
            Box::new(Pbt { name: "recv-corrupt", quick: 40_000, thorough: 3_000_000, strat: recv_strat, test: recv_test, max_shrink: 3000 }),
            Box::new(Enumerated {
                name: "recv-sweep",
                exhaustive_note: Some("field value x truncation length grid through Channel::recv_probe for 20 configurations x 15 fields"),
                cases: sweep_cases,
                test: sweep_test,
            }),
            Box::new(LibFuzzer),
        ],
    }
}
