//! C14 ICMP multi-part extensions are parsed faithfully and always terminate.

use super::{c01, sim_case, SimCase};
use crate::engine::*;
use crate::oracle::Expected;
use crate::simnet::gen::{ext_structure, GenOpts};
use crate::simnet::*;
use crate::wire::{self, ExtObject, ExtStructure, ExtStyle};
use crate::{vensure, vfail};
use proptest::prelude::*;
use proptest::strategy::BoxedStrategy;
use serde::{Deserialize, Serialize};
use serde_json::json;
use std::net::Ipv6Addr;
use trippy_core::{Extension, Extensions};
use trippy_packet::icmp_extension::extension_structure::ExtensionsPacket;
use trippy_packet::icmp_extension::mpls_label_stack::MplsLabelStackPacket;
use trippy_packet::{icmpv4, icmpv6};

#[derive(Clone, Debug, Serialize, Deserialize)]
pub struct ExtMsg {
    pub v6: bool,
    pub unreachable: bool,
    pub code: u8,
    pub original: Vec<u8>,
    pub ext: Option<(ExtStructure, ExtStyle)>,
    pub set_len: bool,
}

fn build(m: &ExtMsg) -> (Vec<u8>, Vec<u8>, Option<Vec<u8>>) {
    let unit = if m.v6 { 8 } else { 4 };
    let ext_bytes = m.ext.as_ref().map(|(s, st)| (wire::encode_ext(s), *st));
    let (body, words) = wire::build_error_body(
        &m.original,
        ext_bytes.as_ref().map(|(b, s)| (b.as_slice(), *s)),
        unit,
        m.set_len && m.original.len().div_ceil(unit) <= 255,
    );
    let msg = if m.v6 {
        let ty = if m.unreachable { wire::ICMP6_DEST_UNREACH } else { wire::ICMP6_TIME_EXCEEDED };
        wire::build_icmp6_error(ty, m.code, &body, words, Ipv6Addr::LOCALHOST, Ipv6Addr::LOCALHOST)
    } else {
        let ty = if m.unreachable { wire::ICMP4_DEST_UNREACH } else { wire::ICMP4_TIME_EXCEEDED };
        wire::build_icmp4_error(ty, m.code, &body, words)
    };
    (msg, body, ext_bytes.map(|(b, _)| b))
}

/// payload() / extension() of the right view for this message.
fn split(m_v6: bool, unreachable: bool, msg: &[u8]) -> Result<(Vec<u8>, Option<Vec<u8>>, (usize, usize), Option<(usize, usize)>), String> {
    let base = msg.as_ptr() as usize;
    let span = |s: &[u8]| (s.as_ptr() as usize - base, s.len());
    macro_rules! go {
        ($P:ty) => {{
            let p = <$P>::new_view(msg).map_err(|e| e.to_string())?;
            let pl = p.payload();
            let ex = p.extension();
            let _ = p.payload_raw();
            let _ = format!("{p:?}");
            Ok((pl.to_vec(), ex.map(<[u8]>::to_vec), span(pl), ex.map(span)))
        }};
    }
    match (m_v6, unreachable) {
        (false, false) => go!(icmpv4::time_exceeded::TimeExceededPacket<'_>),
        (false, true) => go!(icmpv4::destination_unreachable::DestinationUnreachablePacket<'_>),
        (true, false) => go!(icmpv6::time_exceeded::TimeExceededPacket<'_>),
        (true, true) => go!(icmpv6::destination_unreachable::DestinationUnreachablePacket<'_>),
    }
}

pub fn to_core(e: &ExtStructure) -> Extensions {
    if e.version != 2 {
        return Extensions::default();
    }
    Extensions {
        extensions: e
            .objects
            .iter()
            .map(|o| match o {
                ExtObject::Mpls(ms) => Extension::Mpls(trippy_core::MplsLabelStack {
                    // the stack ends at the first member with the S bit, or with the object
                    members: ms
                        .iter()
                        .take(ms.iter().position(|m| m.bos == 1).map_or(ms.len(), |i| i + 1))
                        .map(|m| trippy_core::MplsLabelStackMember { label: m.label, exp: m.exp, bos: m.bos, ttl: m.ttl })
                        .collect(),
                }),
                ExtObject::Other { class, ctype, data } => Extension::Unknown(trippy_core::UnknownExtension {
                    class_num: *class,
                    class_subtype: *ctype,
                    bytes: data.clone(),
                }),
            })
            .collect(),
    }
}

fn msg_strat() -> BoxedStrategy<ExtMsg> {
    let ext = prop_oneof![
        2 => Just(None),
        5 => (
            prop_oneof![6 => ext_structure(), 1 => (ext_structure(), 0u8..16).prop_map(|(mut s, v)| { s.version = v; s })],
            prop_oneof![2 => Just(ExtStyle::Compliant), 2 => Just(ExtStyle::Legacy), 1 => Just(ExtStyle::ShortLength)]
        )
            .prop_map(Some),
    ];
    (
        any::<bool>(),
        any::<bool>(),
        0u8..16,
        // original datagram lengths: from a bare header up to what a 255-word length attribute covers
        prop_oneof![4 => 20usize..=160, 2 => 120usize..=136, 2 => 160usize..=1020, 1 => 1020usize..=2040],
        any::<u64>(),
        ext,
        any::<bool>(),
    )
        .prop_map(|(v6, unreachable, code, len, seed, ext, set_len)| {
            let max = if v6 { 2040 } else { 1020 };
            let len = len.min(max);
            // content is arbitrary non-zero bytes so that padding is distinguishable
            let original: Vec<u8> = (0..len).map(|i| ((mix(seed, i as u64) >> 9) as u8) | 1).collect();
            ExtMsg { v6, unreachable, code, original, ext, set_len }
        })
        .boxed()
}

fn roundtrip_test(m: &ExtMsg, obs: &mut Obs) -> CheckResult {
    let (msg, body, ext_bytes) = build(m);
    let unit = if m.v6 { 8 } else { 4 };
    let (payload, extension, pspan, espan) = match split(m.v6, m.unreachable, &msg) {
        Ok(x) => x,
        Err(e) => vfail!("view-rejected", "a well-formed message of {} octets was rejected: {e}", msg.len()),
    };
    // containment / disjointness hold for every message
    vensure!(pspan.0 >= 8 && pspan.0 + pspan.1 <= msg.len(), "payload-outside", "payload() spans {pspan:?} of a {}-octet message", msg.len());
    if let Some(es) = espan {
        vensure!(es.0 + es.1 <= msg.len(), "extension-outside", "extension() spans {es:?} of a {}-octet message", msg.len());
        vensure!(pspan.0 + pspan.1 <= es.0, "overlap", "payload {pspan:?} and extension {es:?} overlap");
    }
    let l = m.original.len();
    let shape;
    match (&m.ext, &ext_bytes) {
        (Some((structure, style)), Some(eb)) => {
            // RFC 4884: the original datagram is recovered (zero padded), the extension is exactly what was appended
            let expect_payload: Vec<u8> = match style {
                ExtStyle::Compliant => {
                    let mut p = m.original.clone();
                    let mut pl = l.max(128);
                    if pl % unit != 0 {
                        pl += unit - pl % unit;
                    }
                    p.resize(pl, 0);
                    p
                }
                ExtStyle::Legacy => {
                    let mut p = m.original.clone();
                    p.truncate(128);
                    p.resize(128, 0);
                    p
                }
                ExtStyle::ShortLength => {
                    // the padding up to 128 octets is trimmed; from 128 octets upward as Compliant
                    let mut p = m.original.clone();
                    let mut pl = l;
                    if pl % unit != 0 {
                        pl += unit - pl % unit;
                    }
                    p.resize(pl, 0);
                    p
                }
            };
            shape = format!("{style:?}");
            vensure!(
                payload == expect_payload,
                format!("original-datagram:{style:?}"),
                "{style:?} message, original {l} octets, extension {} octets: payload() returned {} octets (expected {}), first difference at {:?}",
                eb.len(),
                payload.len(),
                expect_payload.len(),
                payload.iter().zip(&expect_payload).position(|(a, b)| a != b)
            );
            vensure!(
                extension.as_deref() == Some(eb.as_slice()),
                format!("extension-bytes:{style:?}"),
                "{style:?} message, original {l} octets: extension() returned {:?} octets, expected {}",
                extension.as_ref().map(Vec::len),
                eb.len()
            );
            // objects, labels, EXP / S / TTL in order
            let parsed = Extensions::try_from(eb.as_slice());
            let zero_member_mpls = structure.objects.iter().any(|o| matches!(o, ExtObject::Mpls(ms) if ms.is_empty()));
            match parsed {
                Ok(got) => {
                    let want = to_core(structure);
                    vensure!(
                        got == want,
                        "objects",
                        "extension objects differ: decoded {got:?}, encoded {want:?}"
                    );
                }
                Err(e) => {
                    vensure!(zero_member_mpls, "objects-rejected", "a well-formed extension structure was rejected: {e}");
                }
            }
            // history independence: what a structure parses to does not depend on what was parsed
            // before it on this thread - tried with structures of the same length that also have
            // the same checksum field (label stacks in reverse order; checksum not transmitted)
            if !zero_member_mpls {
                let mut variants: Vec<(ExtStructure, bool)> = vec![];
                let mut rev = structure.clone();
                for o in &mut rev.objects {
                    if let ExtObject::Mpls(ms) = o {
                        ms.reverse();
                    }
                }
                if rev != *structure {
                    variants.push((rev, false));
                }
                let mut other = structure.clone();
                let changed = match other.objects.first_mut() {
                    Some(ExtObject::Mpls(ms)) => ms.first_mut().map(|m| m.label ^= 1).is_some(),
                    Some(ExtObject::Other { data, .. }) => data.first_mut().map(|b| *b ^= 0x55).is_some(),
                    None => false,
                };
                if changed {
                    variants.push((structure.clone(), true));
                    variants.push((other, true));
                }
                for (v, zero_checksum) in &variants {
                    let mut bytes = crate::wire::encode_ext(v);
                    if *zero_checksum {
                        bytes[2] = 0;
                        bytes[3] = 0;
                    }
                    match Extensions::try_from(bytes.as_slice()) {
                        Ok(got) => vensure!(
                            got == to_core(v),
                            "objects-depend-on-history",
                            "a structure of {} octets (checksum field {:02x}{:02x}) parsed right after another of the same length and checksum field: decoded {got:?}, encoded {:?}",
                            bytes.len(),
                            bytes[2],
                            bytes[3],
                            to_core(v)
                        ),
                        Err(e) => vfail!("objects-rejected", "a well-formed extension structure was rejected: {e}"),
                    }
                }
                if !variants.is_empty() {
                    obs.class("history-variants");
                }
            }
            obs.class(format!("objects:{}", structure.objects.len().min(4)));
            if structure.version != 2 {
                obs.class("other-version");
            }
        }
        _ => {
            if m.set_len || l <= 128 {
                shape = if m.set_len { "no-ext-with-length".to_string() } else { "no-ext".to_string() };
                vensure!(
                    payload == body && extension.is_none(),
                    "no-extension",
                    "message without extension (original {l} octets, length attribute {}): payload() {} octets, extension() {:?}",
                    if m.set_len { "set" } else { "0" },
                    payload.len(),
                    extension.as_ref().map(Vec::len)
                );
            } else {
                // a classic (pre RFC 4884) message quoting more than 128 octets is ambiguous by
                // design (RFC 4884 section 5.5); only containment is required
                shape = "classic-long-quote".to_string();
                vensure!(body.starts_with(&payload), "payload-not-prefix", "payload() is not a prefix of the ICMP body");
            }
        }
    }
    obs.class(format!("shape:{shape}"));
    obs.class(if m.v6 { "icmpv6" } else { "icmpv4" });
    let words = if m.v6 { msg[4] } else { msg[5] };
    if words >= 64 {
        obs.class("length>=64-words");
    }
    obs.nontrivial(&(m.v6, m.unreachable, shape, l, m.ext.as_ref().map(|(s, _)| s.clone())));
    obs.sample(json!({"family": if m.v6 { "v6" } else { "v4" }, "original_len": l, "length_attribute": words, "ext": m.ext.as_ref().map(|(s, st)| format!("{st:?} v{} {} objects", s.version, s.objects.len()))}));
    Ok(())
}

// ---------------------------------------------------------------------------------------------
// corruptions

#[derive(Clone, Debug, Serialize, Deserialize)]
pub struct Corrupt {
    pub base: ExtMsg,
    /// (position selector, new value)
    pub edits: Vec<(u16, u8)>,
    pub truncate: Option<u16>,
    pub len_field: Option<u8>,
}

fn corrupt_strat() -> BoxedStrategy<Corrupt> {
    (
        msg_strat(),
        proptest::collection::vec((any::<u16>(), prop_oneof![any::<u8>(), Just(0u8), Just(0xffu8), Just(0x20u8), Just(4u8), Just(3u8)]), 0..=6),
        prop_oneof![2 => Just(None), 1 => any::<u16>().prop_map(Some)],
        prop_oneof![1 => Just(None), 2 => any::<u8>().prop_map(Some)],
    )
        .prop_map(|(base, edits, truncate, len_field)| Corrupt { base, edits, truncate, len_field })
        .boxed()
}

/// Walk every structure reachable from an ICMP error message; the caller catches panics.
pub fn walk_message(v6: bool, unreachable: bool, msg: &[u8]) -> Result<(usize, usize), Fail> {
    let Ok((_, extension, pspan, espan)) = split(v6, unreachable, msg) else {
        return Ok((0, 0));
    };
    vensure!(pspan.0 + pspan.1 <= msg.len(), "payload-outside", "payload() spans {pspan:?} of a {}-octet message", msg.len());
    if let Some(es) = espan {
        vensure!(es.0 + es.1 <= msg.len(), "extension-outside", "extension() spans {es:?} of a {}-octet message", msg.len());
        vensure!(pspan.0 + pspan.1 <= es.0, "overlap", "payload {pspan:?} and extension {es:?} overlap");
    }
    let mut objects = 0usize;
    let mut members = 0usize;
    if let Some(eb) = extension {
        let cap = eb.len() / 4 + 1;
        if let Ok(ep) = ExtensionsPacket::new_view(&eb) {
            let _ = ep.header();
            let _ = ep.packet();
            // independent walk (RFC 4884 section 7): objects follow the 4-octet header back to
            // back; parsing stops at the first object whose length field is below 4 or runs past
            // the octets that are left
            let mut expect_starts: Vec<usize> = vec![];
            {
                let mut off = 4usize;
                while off + 4 <= eb.len() {
                    let l = usize::from(u16::from_be_bytes([eb[off], eb[off + 1]]));
                    if l < 4 || l > eb.len() - off {
                        break;
                    }
                    expect_starts.push(off);
                    off += l;
                }
            }
            let base = eb.as_ptr() as usize;
            let mut got_starts: Vec<usize> = vec![];
            for ob in ep.objects() {
                objects += 1;
                vensure!(objects <= cap, "object-iterator-runaway", "object iterator yielded {objects} items over {} octets", eb.len());
                got_starts.push((ob.as_ptr() as usize).wrapping_sub(base));
                if let Ok(o) = trippy_packet::icmp_extension::extension_object::ExtensionObjectPacket::new_view(ob) {
                    let _ = (o.get_length(), o.get_class_num(), o.get_class_subtype(), o.packet().len());
                    let pl = o.payload();
                    let _ = format!("{o:?}");
                    if let Ok(st) = MplsLabelStackPacket::new_view(pl) {
                        let mcap = pl.len() / 4 + 1;
                        let mut n = 0;
                        for mb in st.members() {
                            n += 1;
                            members += 1;
                            vensure!(n <= mcap, "member-iterator-runaway", "member iterator yielded {n} items over {} octets", pl.len());
                            if let Ok(m) = trippy_packet::icmp_extension::mpls_label_stack_member::MplsLabelStackMemberPacket::new_view(mb) {
                                let _ = (m.get_label(), m.get_exp(), m.get_bos(), m.get_ttl());
                                let _ = format!("{m:?}");
                            }
                        }
                    }
                }
            }
            vensure!(
                got_starts == expect_starts,
                "objects-beyond-wellformed-prefix",
                "extension structure of {} octets: the object iterator yields objects at offsets {got_starts:?}, the well-formed prefix has objects at {expect_starts:?}",
                eb.len()
            );
        }
        // the conversion the tracer applies
        let _ = Extensions::try_from(eb.as_slice());
    }
    Ok((objects, members))
}

fn corrupt_test(c: &Corrupt, obs: &mut Obs) -> CheckResult {
    let (mut msg, _, _) = build(&c.base);
    for (pos, val) in &c.edits {
        // bias the edits towards the tail (extension structure) and the header
        let n = msg.len();
        let i = match pos % 4 {
            0 => usize::from(*pos / 4) % 8.min(n),
            1 => n - 1 - (usize::from(*pos / 4) % 48.min(n)),
            2 => (8 + 128 + usize::from(*pos / 4) % 24).min(n - 1),
            _ => usize::from(*pos / 4) % n,
        };
        msg[i] = *val;
    }
    if let Some(lf) = c.len_field {
        let off = if c.base.v6 { 4 } else { 5 };
        msg[off] = lf;
    }
    if let Some(t) = c.truncate {
        let keep = usize::from(t) % (msg.len() + 1);
        msg.truncate(keep);
    }
    let (objects, members) = walk_message(c.base.v6, c.base.unreachable, &msg)?;
    if objects > 0 {
        obs.class("reached-objects");
    }
    if members > 0 {
        obs.class("reached-mpls-members");
    }
    if msg.len() >= 8 {
        obs.nontrivial(&(hash64(&msg), c.base.v6, c.base.unreachable));
    }
    obs.sample(json!({"len": msg.len(), "objects_walked": objects, "members_walked": members}));
    Ok(())
}

// ---------------------------------------------------------------------------------------------
// end to end

fn e2e_strat() -> BoxedStrategy<SimCase> {
    sim_case(&GenOpts {
        supported_only: true,
        sending_only: true,
        loss: false,
        dups: false,
        late: false,
        max_hops: 12,
        long_path_pct: 0,
        rounds: (1, 3),
        ..GenOpts::default()
    })
    .prop_map(|mut c| {
        // extensions on most routers
        for p in &mut c.world.paths {
            for (i, h) in p.hops.iter_mut().enumerate() {
                if h.ext.is_none() && i % 3 != 2 {
                    h.ext = Some(ExtSpec {
                        structure: ExtStructure {
                            version: 2,
                            objects: vec![ExtObject::Mpls(vec![crate::wire::MplsMember { label: 1000 + i as u32, exp: (i % 8) as u8, bos: 1, ttl: 255 - i as u8 }])],
                        },
                        style: if i % 2 == 0 { ExtStyle::Compliant } else { ExtStyle::Legacy },
                    });
                }
            }
        }
        c
    })
    .boxed()
}

fn e2e_test(c: &SimCase, obs: &mut Obs) -> CheckResult {
    let log = run_trace(&c.cfg, &c.world);
    let Some(truth) = c01::check_outcomes(&log, obs)? else {
        return Ok(());
    };
    if let Some(Err(e)) = &log.result {
        vfail!("run-error", "run failed without any scripted fault: {e}");
    }
    let mut compared = 0usize;
    for (k, r) in truth.rounds.iter().enumerate() {
        for (i, e) in r.iter().enumerate() {
            let (Expected::Complete { ext, kind, ttl, .. }, trippy_core::ProbeStatus::Complete(pc)) = (e, &log.rounds[k].probes[i]) else {
                continue;
            };
            if !matches!(kind, RespKind::TimeExceeded(_) | RespKind::Unreachable(_)) {
                vensure!(pc.extensions.is_none(), "extensions-on-non-error", "round {k} ttl {ttl}: extensions reported for {kind:?}");
                continue;
            }
            if !c.cfg.ext_enabled {
                vensure!(pc.extensions.is_none(), "extensions-while-disabled", "round {k} ttl {ttl}: extensions reported although parsing is disabled");
                continue;
            }
            match ext {
                Some(s) => {
                    let want = to_core(s);
                    vensure!(
                        pc.extensions.as_ref() == Some(&want),
                        "e2e-objects",
                        "round {k} ttl {ttl}: reported extensions {:?}, the router attached {want:?}",
                        pc.extensions
                    );
                    compared += 1;
                }
                None => {
                    // a classic message quoting more than 128 octets is ambiguous (see roundtrip)
                    let s = &log.sends[truth.round_sends[k][i]];
                    let path = &c.world.paths[s.path];
                    let node = if s.responder_pos == path.hops.len() + 1 { &c.world.target.node } else { &path.hops[s.responder_pos - 1] };
                    let long_classic = !node.set_len && !matches!(node.quote, Quote::Min) && s.wire.as_ref().is_some_and(|w| w.datagram.len() > 128);
                    if long_classic {
                        obs.excluded("classic message quoting more than 128 octets");
                    } else {
                        vensure!(
                            pc.extensions.is_none() || pc.extensions.as_ref().is_some_and(|x| x.extensions.is_empty()),
                            "e2e-phantom-extension",
                            "round {k} ttl {ttl}: extensions {:?} reported but the router attached none",
                            pc.extensions
                        );
                    }
                }
            }
        }
    }
    if compared > 0 {
        obs.class("nontrivial");
        obs.nontrivial(&(c.cfg.cell(), compared, c.cfg.packet_size));
    }
    obs.class(if c.cfg.ext_enabled { "mode:enabled" } else { "mode:disabled" });
    obs.sample(json!({"cfg": c.cfg.cell(), "ext_enabled": c.cfg.ext_enabled, "extensions_compared": compared}));
    Ok(())
}

pub fn check() -> PropertyCheck {
    PropertyCheck {
        id: "C14",
        level: "exploration",
        rule: "roundtrip: (ICMPv4/v6 Time Exceeded or Destination Unreachable, original datagram of 20..1020/2040 non-zero octets, optional extension structure of 0..4 objects (MPLS stacks of 1..4 members, other classes with 0..16 octets) in compliant or legacy style, version 2 or other, length attribute set or not) built by the independent encoder and split / converted by trippy; exact equality of datagram (zero padded) and objects for RFC 4884 shapes, containment for every shape. corruption: such a message with up to 6 byte edits biased to headers and the extension area, arbitrary length attribute and truncation; no panic, slices inside the message and disjoint, iterators within len/4+1 items. e2e: simulated routers attach extensions, ProbeComplete.extensions compared in both parse modes. Distinct by (family, type, shape, length, structure)",
        assumptions: vec![
            "a classic (pre RFC 4884) message with length attribute 0 that quotes more than 128 octets is ambiguous by design (RFC 4884 section 5.5); only containment is asserted for it",
            "a zero-member MPLS object is malformed: it must not crash, its content is not asserted",
        ],
        subs: vec![
            Box::new(Pbt { name: "roundtrip", quick: 300_000, thorough: 10_000_000, strat: msg_strat, test: roundtrip_test, max_shrink: 5000 }),
            Box::new(Pbt { name: "corruption", quick: 400_000, thorough: 15_000_000, strat: corrupt_strat, test: corrupt_test, max_shrink: 5000 }),
            Box::new(Pbt { name: "e2e", quick: 60_000, thorough: 1_000_000, strat: e2e_strat, test: e2e_test, max_shrink: 3000 }),
        ],
    }
}
