//! End-to-end oracles over a simulated run that are shared by several properties:
//! scheduling discipline (C06), round timing (C08), hop table shape (C10).

use crate::engine::*;
use crate::oracle::{self, Book, Expected, Step, Truth};
use crate::simnet::*;
use crate::{vensure, vfail};
use trippy_core::CompletionReason;

/// Common preamble: a panic or a deterministic-cap abort is a failure for every property; a
/// builder rejection or an unjudgeable log excludes the case.
pub fn prepare(log: &RunLog, obs: &mut Obs) -> Result<Option<Truth>, Fail> {
    if let Some(p) = &log.panic {
        vfail!(panic_sig(p), "tracer panicked: {p}");
    }
    if let Some(a) = &log.aborted {
        vfail!("abort", "run aborted by deterministic cap: {a}");
    }
    if log.build_error.is_some() {
        obs.excluded("builder-rejected");
        return Ok(None);
    }
    match oracle::truth(log) {
        Ok(t) => Ok(Some(t)),
        Err(oracle::TruthError::Excluded(why)) => {
            obs.excluded(why);
            Ok(None)
        }
    }
}

/// C06: ordered-log invariants on sends.
pub fn check_schedule(log: &RunLog, obs: &mut Obs) -> CheckResult {
    let cfg = &log.cfg;
    let steps = oracle::steps(log);
    let mut book = Book::default();
    let mut expected_next = u16::from(cfg.first_ttl);
    let mut sends_in_round = 0usize;
    let mut resp_between_sends = false;
    let mut saw_resp_since_send = false;
    let mut window_tight = false;
    let mut prev_send_reissued = false;
    for st in &steps {
        match st {
            Step::Send { idx, ttl, round, .. } => {
                let s = &log.sends[*idx];
                if saw_resp_since_send && sends_in_round > 0 {
                    resp_between_sends = true;
                }
                saw_resp_since_send = false;
                sends_in_round += 1;
                let on_wire = s.wire.is_some();
                let reissue_now = s.failed.is_some_and(|(stg, e)| oracle::is_reissue(cfg, stg, e));
                if on_wire {
                    let ttl16 = u16::from(*ttl);
                    vensure!(
                        ttl16 == expected_next,
                        "ttl-order",
                        "round {round}: probe #{} went out with ttl {ttl}, expected {expected_next} (first-ttl {}, previous probe re-issued: {prev_send_reissued})",
                        sends_in_round - 1,
                        cfg.first_ttl
                    );
                    vensure!(*ttl <= cfg.max_ttl, "max-ttl", "round {round}: ttl {ttl} above max-ttl {}", cfg.max_ttl);
                    vensure!(
                        !book.target_found,
                        "after-target",
                        "round {round}: ttl {ttl} sent after the target had answered in this round"
                    );
                    if let Some(t) = book.target_ttl {
                        vensure!(
                            *ttl <= t,
                            "above-target-distance",
                            "round {round}: ttl {ttl} sent although the target's distance {t} is established"
                        );
                    } else {
                        let farthest = book.max_received.map_or(u16::from(cfg.first_ttl.saturating_sub(1)), u16::from);
                        let beyond = ttl16.saturating_sub(farthest);
                        vensure!(
                            beyond <= u16::from(cfg.max_inflight),
                            "inflight-window",
                            "round {round}: ttl {ttl} is {beyond} hops beyond the farthest answered hop {farthest}, max-inflight {}",
                            cfg.max_inflight
                        );
                        if beyond == u16::from(cfg.max_inflight) || beyond + 1 == u16::from(cfg.max_inflight) {
                            window_tight = true;
                        }
                    }
                }
                if !reissue_now {
                    expected_next += 1;
                }
                prev_send_reissued = reissue_now;
            }
            Step::Resp { ttl, from_target, t_ns, .. } => {
                book.response(*ttl, *from_target, *t_ns);
                saw_resp_since_send = true;
            }
            Step::Publish { k, .. } => {
                vensure!(
                    sends_in_round >= 1,
                    "round-sends-first-ttl",
                    "round {k} was published without a single probe (first-ttl {}, max-ttl {}, max-inflight {})",
                    cfg.first_ttl,
                    cfg.max_ttl,
                    cfg.max_inflight
                );
                book.new_round();
                expected_next = u16::from(cfg.first_ttl);
                sends_in_round = 0;
                saw_resp_since_send = false;
                prev_send_reissued = false;
            }
            Step::Check { .. } => {}
        }
    }
    if resp_between_sends {
        obs.class("resp-between-sends");
    }
    if window_tight {
        obs.class("window-tight");
    }
    if (cfg.first_ttl > 1 || cfg.max_inflight <= 4) && resp_between_sends {
        obs.class("nontrivial");
        let shape: Vec<(u8, usize)> = log.rounds.iter().map(|r| (r.largest_ttl, r.probes.len())).collect();
        obs.nontrivial(&(cfg.first_ttl, cfg.max_ttl, cfg.max_inflight, shape));
    }
    Ok(())
}

/// C08: publish instants against the timing policy.
pub fn check_timing(log: &RunLog, obs: &mut Obs) -> CheckResult {
    let cfg = &log.cfg;
    let steps = oracle::steps(log);
    let mut book = Book::default();
    let mut start = log.start_ns;
    let spin = if cfg.read_timeout_ns == 0 { (cfg.max_round_ns / 200).max(1) } else { 0 };
    let wait = cfg.read_timeout_ns.max(spin);
    // one loop iteration: (re-issued) sends + one poll wait + one read
    let reissues = log
        .sends
        .iter()
        .filter(|s| s.failed.is_some_and(|(st, e)| oracle::is_reissue(cfg, st, e)))
        .count() as u64;
    let slack = log.spec.send_cost_ns * (1 + reissues) + log.spec.recv_cost_ns;
    let mut near_threshold = false;
    let mut early = false;
    // set when the policy was satisfied at the end of a loop iteration: the round must be
    // published right there
    let mut due: Option<u64> = None;
    let fatal = matches!(log.result, Some(Err(_)));
    for st in &steps {
        if let Some(t) = due {
            if !matches!(st, Step::Publish { .. }) {
                vfail!(
                    "not-published-when-due",
                    "round {}: at offset {} ns the policy was satisfied (target answered={}, duration {} vs min {} / max {}, {} ns since last response vs grace {}) but the round stayed open",
                    log.rounds.iter().filter(|r| r.t_ns <= t).count(),
                    t - log.start_ns,
                    book.target_found,
                    t - start,
                    cfg.min_round_ns,
                    cfg.max_round_ns,
                    book.last_recv_ns.map_or(-1, |l| (t - l) as i128),
                    cfg.grace_ns
                );
            }
        }
        match st {
            Step::Check { t_ns } => {
                let d = t_ns - start;
                let grace_ok = book.last_recv_ns.is_some_and(|l| t_ns - l > cfg.grace_ns);
                if d > cfg.max_round_ns || (book.target_found && d > cfg.min_round_ns && grace_ok) {
                    due = Some(*t_ns);
                }
            }
            Step::Send { t_ns, round, .. } => {
                vensure!(
                    *t_ns >= start,
                    "send-before-round-start",
                    "round {round}: probe stamped {t_ns} before the round started at {start}"
                );
            }
            Step::Resp { ttl, from_target, t_ns, .. } => book.response(*ttl, *from_target, *t_ns),
            Step::Publish { k, t_ns } => {
                let d = t_ns - start;
                let r = &log.rounds[*k];
                let over_max = d > cfg.max_round_ns;
                let grace_ok = book.last_recv_ns.is_some_and(|l| t_ns - l > cfg.grace_ns);
                let by_target = book.target_found && d > cfg.min_round_ns && grace_ok;
                vensure!(
                    over_max || by_target,
                    "published-early",
                    "round {k} published after {d} ns: not beyond max {} and not (target answered={} and beyond min {} and {} ns since last response > grace {})",
                    cfg.max_round_ns,
                    book.target_found,
                    cfg.min_round_ns,
                    book.last_recv_ns.map_or(-1, |l| (t_ns - l) as i128),
                    cfg.grace_ns
                );
                match r.reason {
                    CompletionReason::TargetFound => {
                        vensure!(
                            book.target_found,
                            "reason-target-without-answer",
                            "round {k}: reason TargetFound but no genuine target answer was read in it"
                        );
                    }
                    CompletionReason::RoundTimeLimitExceeded => {
                        vensure!(
                            over_max,
                            "reason-limit-without-overrun",
                            "round {k}: reason RoundTimeLimitExceeded but duration {d} <= max {}",
                            cfg.max_round_ns
                        );
                        vensure!(
                            !book.target_found,
                            "reason-limit-with-target",
                            "round {k}: reason RoundTimeLimitExceeded although the target answered in it"
                        );
                    }
                }
                vensure!(
                    d <= cfg.max_round_ns + wait + slack,
                    "held-open",
                    "round {k} held open {d} ns > max {} + wait {wait} + costs {slack}",
                    cfg.max_round_ns
                );
                let near = |x: u64, y: u64| x.abs_diff(y) <= 2;
                if near(d, cfg.max_round_ns) || near(d, cfg.min_round_ns) || book.last_recv_ns.is_some_and(|l| near(t_ns - l, cfg.grace_ns)) {
                    near_threshold = true;
                }
                if !over_max {
                    early = true;
                }
                start = *t_ns;
                book.new_round();
                due = None;
            }
        }
    }
    // the run ends after the last publish; a policy satisfied at the very last check of a run
    // that ended with a fatal error is not an omission
    if let (Some(t), false) = (due, fatal) {
        if log.rounds.len() < cfg.max_rounds as usize {
            vfail!("not-published-when-due", "the policy was satisfied at offset {} ns but no round was published", t - log.start_ns);
        }
    }
    if near_threshold {
        obs.class("near-threshold");
    }
    if early {
        obs.class("early-by-target");
    }
    if near_threshold || early {
        obs.class("nontrivial");
        let ds: Vec<u64> = log.rounds.iter().map(|r| r.t_ns).collect();
        obs.nontrivial(&(cfg.min_round_ns, cfg.max_round_ns, cfg.grace_ns, cfg.read_timeout_ns, ds));
    }
    Ok(())
}

/// C10: the hop table after every round.
pub fn check_table(log: &RunLog, truth: &Truth, obs: &mut Obs) -> CheckResult {
    let cfg = &log.cfg;
    let mut lowest: u8 = 0;
    let mut highest: u8 = 0;
    let mut probed = [false; 256];
    let mut any_answer = false;
    let single_len = {
        let l0 = log.spec.paths.first().map(|p| p.hops.len());
        if log.spec.paths.iter().all(|p| Some(p.hops.len()) == l0 && p.firewall.is_none()) {
            l0.map(|l| l + 1)
        } else {
            None
        }
    };
    for (k, r) in log.rounds.iter().enumerate() {
        for (i, e) in truth.rounds[k].iter().enumerate() {
            let ttl = match e {
                Expected::Complete { ttl, .. } => {
                    any_answer = true;
                    Some(*ttl)
                }
                Expected::Awaited { ttl, .. } => Some(*ttl),
                Expected::Failed { .. } => match &r.probes[i] {
                    trippy_core::ProbeStatus::Failed(f) => Some(f.ttl.0),
                    _ => None,
                },
                Expected::Skipped => None,
            };
            if let Some(t) = ttl {
                probed[usize::from(t)] = true;
                lowest = if lowest == 0 { t } else { lowest.min(t) };
            }
        }
        highest = highest.max(r.largest_ttl);
        let max_probed = (1..=255usize).rev().find(|t| probed[*t]).unwrap_or(0);
        vensure!(
            usize::from(r.largest_ttl) <= max_probed,
            "beyond-probed",
            "round {k}: reported path length {} exceeds the highest TTL ever probed ({max_probed})",
            r.largest_ttl
        );
        let table = match &log.tables[k] {
            Ok(t) => t,
            Err(p) => vfail!(panic_sig(p), "querying the hop table after round {k} panicked: {p}"),
        };
        if !any_answer {
            vensure!(
                r.largest_ttl == 0 && table.hop_ttls.is_empty(),
                "nothing-answered",
                "round {k}: nothing has answered yet but path length is {} and the table has {} hops",
                r.largest_ttl,
                table.hop_ttls.len()
            );
        }
        let expect: Vec<u8> = if lowest == 0 || highest == 0 {
            vec![]
        } else {
            (lowest..=highest).map(|t| if probed[usize::from(t)] { t } else { 0 }).collect()
        };
        vensure!(
            table.hop_ttls == expect,
            "hop-run",
            "round {k}: hops() carries ttls {:?}, expected the run {lowest}..={highest} = {:?}",
            table.hop_ttls,
            expect
        );
        if r.largest_ttl > 0 {
            let want = if probed[usize::from(r.largest_ttl)] { r.largest_ttl } else { 0 };
            vensure!(
                table.target_hop_ttl == want,
                "target-hop",
                "round {k}: target_hop().ttl() = {} but the round's path length is {}",
                table.target_hop_ttl,
                r.largest_ttl
            );
            if probed[usize::from(r.largest_ttl)] {
                vensure!(
                    table.is_target_ttls == vec![r.largest_ttl],
                    "is-target",
                    "round {k}: is_target() holds for {:?}, expected only {}",
                    table.is_target_ttls,
                    r.largest_ttl
                );
            }
        }
        vensure!(
            table.round_count == k + 1,
            "round-count",
            "round {k}: round_count(default flow) = {}",
            table.round_count
        );
        // stable single path whose target answered the probe with ttl = distance in this round
        if let Some(dist) = single_len {
            if dist <= 254 && usize::from(cfg.first_ttl) <= dist && dist <= usize::from(cfg.max_ttl) {
                let answered = truth.rounds[k].iter().any(|e| matches!(e, Expected::Complete { ttl, target: true, .. } if usize::from(*ttl) == dist));
                if answered {
                    vensure!(
                        usize::from(r.largest_ttl) == dist,
                        "true-distance",
                        "round {k}: target at distance {dist} answered the ttl-{dist} probe but the reported path length is {}",
                        r.largest_ttl
                    );
                    obs.class("true-distance-checked");
                }
            }
        }
    }
    if log.rounds.len() >= 2 && any_answer {
        obs.class("nontrivial");
        let shape: Vec<u8> = log.rounds.iter().map(|r| r.largest_ttl).collect();
        obs.nontrivial(&(cfg.first_ttl, lowest, highest, shape, log.spec.paths.len()));
    }
    if cfg.first_ttl > 1 {
        obs.class("first-ttl>1");
    }
    if !any_answer {
        obs.class("nothing-ever-answered");
    }
    Ok(())
}
