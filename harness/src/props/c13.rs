//! C13 Internet checksums verify, including the Paris checksum swap.

use crate::engine::*;
use crate::simnet::world;
use crate::simnet::*;
use crate::wire::{self, L4};
use crate::{vclock, vensure, vfail};
use proptest::prelude::*;
use proptest::strategy::BoxedStrategy;
use serde::{Deserialize, Serialize};
use serde_json::json;
use std::net::{IpAddr, Ipv4Addr, Ipv6Addr};
use std::time::Duration;
use trippy_core::verif::{Channel, ChannelConfig, Network};
use trippy_core::{Flags, IcmpExtensionParseMode, PacketSize, PayloadPattern, Port, PrivilegeMode, Probe, Protocol, RoundId, Sequence, TimeToLive, TraceId, TypeOfService};
use trippy_packet::checksum as tp;

#[derive(Clone, Copy, Debug, PartialEq, Eq, Serialize, Deserialize)]
pub enum Kind {
    Icmp4,
    Icmp6,
    Udp4,
    Udp6,
    Tcp4,
    Ip4Header,
}

#[derive(Clone, Debug, Serialize, Deserialize)]
pub struct SumCase {
    pub kind: Kind,
    pub data: Vec<u8>,
    pub src: [u8; 16],
    pub dst: [u8; 16],
}

fn data_strat() -> BoxedStrategy<Vec<u8>> {
    // header + payload 0..=1024, odd and even; random, all-ones (carry maximising), sparse
    (0usize..=1024, 0u8..6, any::<u64>())
        .prop_map(|(n, fill, seed)| match fill {
            0 => vec![0xffu8; n],
            1 => vec![0u8; n],
            2 => (0..n).map(|i| if i % 2 == 0 { 0xff } else { 0xfe }).collect(),
            _ => (0..n).map(|i| (mix(seed, i as u64) >> 7) as u8).collect(),
        })
        .boxed()
}

fn sum_strat() -> BoxedStrategy<SumCase> {
    (
        prop_oneof![Just(Kind::Icmp4), Just(Kind::Icmp6), Just(Kind::Udp4), Just(Kind::Udp6), Just(Kind::Tcp4), Just(Kind::Ip4Header)],
        data_strat(),
        any::<[u8; 16]>(),
        any::<[u8; 16]>(),
        any::<[u8; 20]>(),
        prop_oneof![3 => Just(0u8), 1 => Just(1u8), 1 => Just(2u8)],
    )
        .prop_map(|(kind, payload, src, dst, hdr, addr_fill)| {
            let hl = match kind {
                Kind::Tcp4 | Kind::Ip4Header => 20,
                _ => 8,
            };
            let mut data = hdr[..hl].to_vec();
            if kind != Kind::Ip4Header {
                data.extend(payload);
            }
            let (src, dst) = match addr_fill {
                1 => ([0xff; 16], [0xff; 16]),
                2 => ([0; 16], [0; 16]),
                _ => (src, dst),
            };
            SumCase { kind, data, src, dst }
        })
        .boxed()
}

fn a4(b: &[u8; 16]) -> Ipv4Addr {
    Ipv4Addr::new(b[0], b[1], b[2], b[3])
}
fn a6(b: &[u8; 16]) -> Ipv6Addr {
    Ipv6Addr::from(*b)
}

fn sum_test(c: &SumCase, obs: &mut Obs) -> CheckResult {
    // The functions are pure: the same answer whatever was computed before on this thread.  The
    // case is followed by the same data with one address changed (destination, then source) and
    // by the case itself again.
    let mut other = c.clone();
    other.dst[15] ^= 0x5a;
    other.dst[3] ^= 0x01;
    sum_one(c, obs)?;
    sum_one(&other, &mut Obs::default()).map_err(|f| Fail::new(format!("{}:after-other-destination", f.sig), format!("second call on the thread, same source and data, other destination: {}", f.msg)))?;
    let mut other = c.clone();
    other.src[15] ^= 0xa5;
    other.src[3] ^= 0x02;
    sum_one(&other, &mut Obs::default()).map_err(|f| Fail::new(format!("{}:after-other-source", f.sig), format!("third call on the thread, other source: {}", f.msg)))?;
    sum_one(c, &mut Obs::default()).map_err(|f| Fail::new(format!("{}:repeated", f.sig), format!("the first call repeated: {}", f.msg)))
}

fn sum_one(c: &SumCase, obs: &mut Obs) -> CheckResult {
    let d = &c.data;
    let len = d.len();
    let (got, ck_off, pseudo): (u16, usize, Vec<u8>) = match c.kind {
        Kind::Icmp4 => (tp::icmp_ipv4_checksum(d), 2, vec![]),
        Kind::Ip4Header => (tp::ipv4_header_checksum(d), 10, vec![]),
        Kind::Icmp6 => (
            tp::icmp_ipv6_checksum(d, a6(&c.src), a6(&c.dst)),
            2,
            wire::pseudo6(a6(&c.src), a6(&c.dst), wire::PROTO_ICMPV6, len as u32).to_vec(),
        ),
        Kind::Udp4 => (
            tp::udp_ipv4_checksum(d, a4(&c.src), a4(&c.dst)),
            6,
            wire::pseudo4(a4(&c.src), a4(&c.dst), wire::PROTO_UDP, len as u16).to_vec(),
        ),
        Kind::Udp6 => (
            tp::udp_ipv6_checksum(d, a6(&c.src), a6(&c.dst)),
            6,
            wire::pseudo6(a6(&c.src), a6(&c.dst), wire::PROTO_UDP, len as u32).to_vec(),
        ),
        Kind::Tcp4 => (
            tp::tcp_ipv4_checksum(d, a4(&c.src), a4(&c.dst)),
            16,
            wire::pseudo4(a4(&c.src), a4(&c.dst), wire::PROTO_TCP, len as u16).to_vec(),
        ),
    };
    let want = wire::transport_checksum(&pseudo, d, ck_off);
    vensure!(
        got == want,
        format!("{:?}:differs-from-rfc1071", c.kind),
        "{:?} over {len} octets: codec {got:#06x}, RFC 1071 reference {want:#06x}",
        c.kind
    );
    let mut with = d.clone();
    with[ck_off..ck_off + 2].copy_from_slice(&got.to_be_bytes());
    vensure!(
        wire::verifies(&[&pseudo, &with]),
        format!("{:?}:does-not-verify", c.kind),
        "{:?} over {len} octets: datagram with checksum {got:#06x} inserted sums to {:#06x}",
        c.kind,
        wire::ones_sum(&[&pseudo, &with])
    );
    obs.class(format!("kind:{:?}", c.kind));
    if len % 2 == 1 {
        obs.class("odd-length");
    }
    if d.iter().all(|b| *b == 0xff) {
        obs.class("all-ones");
    }
    obs.nontrivial(&(format!("{:?}", c.kind), len, hash64(&d), c.src, c.dst));
    obs.sample(json!({"kind": format!("{:?}", c.kind), "len": len, "checksum": format!("{got:#06x}")}));
    Ok(())
}

// ---------------------------------------------------------------------------------------------
// Paris: all 2^16 sequences through the real Channel

#[derive(Clone, Debug, Serialize, Deserialize)]
pub struct ParisCase {
    pub v6: bool,
    pub src_port: u16,
    pub dest_port: u16,
    pub seq_lo: u32,
    pub seq_hi: u32,
}

fn paris_cases(tier: Tier) -> Vec<ParisCase> {
    let mut out = vec![];
    let ports: &[(u16, u16)] = match tier {
        Tier::Quick => &[(5000, 33434)],
        Tier::Thorough => &[(5000, 33434), (0xffff, 0xffff), (1, 0), (33434, 80)],
    };
    for v6 in [false, true] {
        for &(s, d) in ports {
            let mut lo = 0u32;
            while lo < 65536 {
                out.push(ParisCase { v6, src_port: s, dest_port: d, seq_lo: lo, seq_hi: lo + 4096 });
                lo += 4096;
            }
        }
    }
    out
}

fn paris_test(c: &ParisCase, obs: &mut Obs) -> CheckResult {
    let cfg = TraceCfg {
        v6: c.v6,
        protocol: Proto::Udp,
        strategy: Strat::Paris,
        ports: Ports::FixedBoth(c.src_port, c.dest_port),
        privileged: true,
        packet_size: 84,
        ..TraceCfg::default()
    };
    let mut spec = WorldSpec::simple(0);
    spec.target.node.mode = RespMode::Silent;
    vclock::enable(crate::simnet::run::START_NS);
    world::install(World::new(cfg.clone(), spec));
    let cc = ChannelConfig {
        privilege_mode: PrivilegeMode::Privileged,
        protocol: Protocol::Udp,
        source_addr: cfg.src_addr(),
        target_addr: cfg.target_addr(),
        packet_size: PacketSize(84),
        payload_pattern: PayloadPattern(0x5a),
        initial_sequence: Sequence(33434),
        tos: TypeOfService(0),
        icmp_extension_parse_mode: IcmpExtensionParseMode::Disabled,
        read_timeout: Duration::from_millis(1),
        tcp_connect_timeout: Duration::from_millis(1),
    };
    let res = (|| -> CheckResult {
        let mut ch = match Channel::<SimSocket>::connect(&cc) {
            Ok(c) => c,
            Err(e) => vfail!("connect", "Channel::connect failed: {e}"),
        };
        for seq in c.seq_lo..c.seq_hi {
            let seq = seq as u16;
            let probe = Probe {
                sequence: Sequence(seq),
                identifier: TraceId(0),
                src_port: Port(c.src_port),
                dest_port: Port(c.dest_port),
                ttl: TimeToLive(5),
                round: RoundId(0),
                sent: vclock::ns_to_systime(vclock::now_ns()),
                flags: Flags::PARIS_CHECKSUM,
            };
            if let Err(e) = ch.send_probe(probe) {
                vfail!("send", "send_probe failed for sequence {seq}: {e}");
            }
            let w = world::with(|w| {
                let r = w.sends.last().and_then(|s| s.wire.clone());
                w.sends.clear();
                w.events.clear();
                r
            });
            let Some(w) = w else { vfail!("no-datagram", "sequence {seq}: nothing reached the wire") };
            let L4::Udp { sport, dport, len, cksum, .. } = &w.l4 else {
                vfail!("not-udp", "sequence {seq}: not a UDP datagram");
            };
            vensure!(*cksum == seq, "paris-checksum-field", "sequence {seq}: UDP checksum field {cksum:#06x}");
            vensure!(*sport == c.src_port && *dport == c.dest_port, "paris-ports", "sequence {seq}: ports {sport}->{dport}");
            let seg = if c.v6 { &w.datagram[40..] } else { &w.datagram[20..] };
            let ok = match (w.src, w.dst) {
                (IpAddr::V4(s), IpAddr::V4(d)) => wire::verifies(&[&wire::pseudo4(s, d, wire::PROTO_UDP, *len), seg]),
                (IpAddr::V6(s), IpAddr::V6(d)) => wire::verifies(&[&wire::pseudo6(s, d, wire::PROTO_UDP, u32::from(*len)), seg]),
                _ => false,
            };
            vensure!(ok, "paris-does-not-verify", "sequence {seq}: datagram {:02x?} does not verify", seg);
        }
        Ok(())
    })();
    let _ = world::take();
    vclock::disable();
    res?;
    obs.extra_evals = u64::from(c.seq_hi - c.seq_lo) - 1;
    obs.nontrivial(&(c.v6, c.src_port, c.dest_port, c.seq_lo));
    if c.seq_lo == 0 {
        obs.sample(json!({"family": if c.v6 { "v6" } else { "v4" }, "ports": [c.src_port, c.dest_port], "sequences": [c.seq_lo, c.seq_hi]}));
    }
    Ok(())
}

/// "so that the datagram with the checksum inserted sums to 0xFFFF", on what the tracer emits:
/// the C11 wire check over generated configurations, keeping only its checksum oracles.
fn emitted_test(c: &super::SimCase, obs: &mut Obs) -> CheckResult {
    match super::c11::test(c, obs) {
        Err(f) if f.sig.contains("checksum") => Err(f),
        _ => Ok(()),
    }
}

pub fn check() -> PropertyCheck {
    PropertyCheck {
        id: "C13",
        level: "exploration",
        rule: "emitted-datagrams: every ICMP / UDP probe of generated configurations (sizes, patterns, tos, sequences, both families) captured at the simulated send socket must verify with the independent RFC 1071 code. differential: (kind in ICMPv4/ICMPv6/UDPv4/UDPv6/TCPv4/IPv4 header, header + payload 0..1024 octets random / all-ones / all-zero / alternating with arbitrary bytes in the checksum field, random / all-ones / all-zero address pair) by proptest against an independent RFC 1071 implementation, and the datagram with the checksum inserted must sum to 0xFFFF; distinct by (kind, length, content hash, addresses). paris-sweep: every one of the 65 536 sequence values x both families x port pairs dispatched through the real Channel::send_probe over the simulated socket; the checksum field must equal the sequence and the captured datagram must verify; evaluations count datagrams",
        assumptions: vec!["data passed to the checksum functions is at least one transport header long (the functions are only ever called on complete headers)"],
        subs: vec![
            Box::new(Pbt {
                name: "differential",
                quick: 800_000,
                thorough: 60_000_000,
                strat: sum_strat,
                test: sum_test,
                max_shrink: 5000,
            }),
            Box::new(Pbt {
                name: "emitted-datagrams",
                quick: 40_000,
                thorough: 1_500_000,
                strat: super::c11::strat,
                test: emitted_test,
                max_shrink: 3000,
            }),
            Box::new(Enumerated {
                name: "paris-sweep",
                exhaustive_note: Some("all 65 536 Paris sequence values x IPv4/IPv6 x port pairs (1 pair quick, 4 thorough)"),
                cases: paris_cases,
                test: paris_test,
            }),
        ],
    }
}
