//! C02 A probe's identity survives the wire: encode, quote, decode, match.

use super::{c01, sim_case, SimCase};
use crate::engine::*;
use crate::oracle::Expected;
use crate::simnet::gen::GenOpts;
use crate::simnet::*;
use crate::wire::{ExtObject, ExtStructure, ExtStyle, MplsMember};
use crate::{vensure, vfail};
use proptest::strategy::BoxedStrategy;
use serde::{Deserialize, Serialize};
use serde_json::json;

fn opts() -> GenOpts {
    GenOpts {
        supported_only: true,
        sending_only: true,
        injections: true,
        inj_max: 6,
        loss: false,
        dups: false,
        late: false,
        max_hops: 30,
        long_path_pct: 4,
        rounds: (1, 4),
        ..GenOpts::default()
    }
}

fn strat() -> BoxedStrategy<SimCase> {
    sim_case(&opts())
}

fn quote_class(q: Quote) -> &'static str {
    match q {
        Quote::Min => "min",
        Quote::Extra(n) if n < 16 => "min+<16",
        Quote::Extra(_) => "min+>=16",
        Quote::Full => "full",
    }
}

fn test(c: &SimCase, obs: &mut Obs) -> CheckResult {
    let log = run_trace(&c.cfg, &c.world);
    let Some(truth) = c01::check_outcomes(&log, obs)? else {
        return Ok(());
    };
    if let Some(Err(e)) = &log.result {
        vfail!("run-error", "run failed without any scripted fault: {e}");
    }
    // classify the quotation shapes through which responses were accepted
    obs.class(format!("cell:{}", c.cfg.cell()));
    let mut accepted = 0usize;
    for (k, r) in truth.rounds.iter().enumerate() {
        for (i, e) in r.iter().enumerate() {
            if let Expected::Complete { .. } = e {
                accepted += 1;
                let s = &log.sends[truth.round_sends[k][i]];
                let path = &c.world.paths[s.path];
                let node = if s.responder_pos == path.hops.len() + 1 {
                    &c.world.target.node
                } else if s.responder_pos >= 1 {
                    &path.hops[s.responder_pos - 1]
                } else {
                    continue;
                };
                let edits = (
                    node.tos_rewrite.is_some() || path.hops.iter().take(s.responder_pos.saturating_sub(1)).any(|h| h.tos_rewrite.is_some()),
                    node.quoted_ttl,
                    node.reply_ip_options > 0,
                );
                let ext_shape = node.ext.as_ref().map(|e| (e.style, e.structure.objects.len()));
                obs.nontrivial(&(c.cfg.cell(), quote_class(node.quote), ext_shape, edits, node.set_len));
                obs.class(format!("quote:{}", quote_class(node.quote)));
                if node.ext.is_some() {
                    obs.class("with-extension");
                }
                if edits.0 {
                    obs.class("tos-remarked");
                }
            }
        }
    }
    for (_, l) in &truth.junk_read {
        obs.class(format!("rejected:{l}"));
    }
    if accepted > 0 {
        obs.class("nontrivial");
    }
    obs.sample(json!({
        "cfg": c.cfg.cell(), "packet_size": c.cfg.packet_size, "tos": c.cfg.tos, "initial_sequence": c.cfg.initial_sequence,
        "accepted": accepted, "rejected_junk": truth.junk_read.len(),
    }));
    Ok(())
}

// ---------------------------------------------------------------------------------------------
// exhaustive sequence sweep per supported cell

#[derive(Clone, Debug, Serialize, Deserialize)]
pub struct SweepCase {
    pub cfg: TraceCfg,
    pub rounds: u32,
}

pub fn supported_cells() -> Vec<TraceCfg> {
    let mut v = vec![];
    let mut n = 0u32;
    let mut push = |v6: bool, protocol: Proto, strategy: Strat, ports: Ports, privileged: bool| {
        n += 1;
        v.push(TraceCfg {
            v6,
            protocol,
            strategy,
            ports,
            privileged,
            ext_enabled: n % 2 == 0,
            ..TraceCfg::default()
        });
    };
    for v6 in [false, true] {
        for privileged in [true, false] {
            push(v6, Proto::Icmp, Strat::Classic, Ports::None, privileged);
            for ports in [Ports::FixedSrc(5000), Ports::FixedDest(33000)] {
                push(v6, Proto::Udp, Strat::Classic, ports, privileged);
                push(v6, Proto::Tcp, Strat::Classic, ports, privileged);
            }
        }
        for strategy in [Strat::Paris, Strat::Dublin] {
            for ports in [Ports::FixedSrc(5000), Ports::FixedDest(33000), Ports::FixedBoth(5000, 33000)] {
                push(v6, Proto::Udp, strategy, ports, true);
            }
        }
    }
    v
}

pub fn sweep_world() -> WorldSpec {
    let mut w = WorldSpec::simple(260);
    for (i, h) in w.paths[0].hops.iter_mut().enumerate() {
        h.addr = 100 + i as u16;
        h.delay_ns = 200;
        h.quote = [Quote::Min, Quote::Extra(12), Quote::Full][i % 3];
        h.quoted_ttl = (i % 2) as u8;
        if i % 5 == 0 {
            h.ext = Some(ExtSpec {
                structure: ExtStructure {
                    version: 2,
                    objects: vec![ExtObject::Mpls(vec![MplsMember { label: 16 + i as u32, exp: (i % 8) as u8, bos: 1, ttl: 1 }])],
                },
                style: if i % 10 == 0 { ExtStyle::Compliant } else { ExtStyle::Legacy },
            });
        }
        if i % 7 == 3 {
            h.tos_rewrite = Some((i * 4) as u8);
        }
        if i % 11 == 5 {
            h.set_len = true;
        }
    }
    w
}

pub fn sweep_cases(tier: Tier) -> Vec<SweepCase> {
    let mut out = vec![];
    for cell in supported_cells() {
        let inits: Vec<u16> = match tier {
            Tier::Quick => vec![0, 33434, 64511],
            Tier::Thorough => vec![0, 1, 33434, 64257, 64511],
        };
        for init in inits {
            let rounds = match tier {
                Tier::Quick => 12,
                // 254 sequences per round: 260 rounds walk the whole issuable range and wrap
                Tier::Thorough => 262,
            };
            let mut cfg = cell.clone();
            cfg.initial_sequence = init;
            cfg.first_ttl = 1;
            cfg.max_ttl = 254;
            cfg.max_inflight = 255;
            cfg.max_rounds = rounds;
            cfg.read_timeout_ns = 1000;
            cfg.min_round_ns = 0;
            cfg.max_round_ns = 400_000;
            cfg.grace_ns = 0;
            cfg.tcp_connect_timeout_ns = 3000;
            cfg.packet_size = if cfg.v6 { 64 + (init % 300) } else { 40 + (init % 300) };
            cfg.tos = (init % 251) as u8;
            cfg.pattern = (init % 256) as u8;
            out.push(SweepCase { cfg, rounds });
        }
    }
    out
}

fn sweep_test(c: &SweepCase, obs: &mut Obs) -> CheckResult {
    let world = sweep_world();
    let log = run_trace(&c.cfg, &world);
    let Some(truth) = c01::check_outcomes(&log, obs)? else {
        vfail!("sweep-not-run", "sweep configuration did not run: {:?}", log.build_error);
    };
    if let Some(Err(e)) = &log.result {
        vfail!("run-error", "run failed without any scripted fault: {e}");
    }
    vensure!(log.rounds.len() == c.rounds as usize, "rounds-published", "published {} of {} rounds", log.rounds.len(), c.rounds);
    let mut seqs = std::collections::BTreeSet::new();
    let mut wraps = 0;
    let mut last = None;
    for (k, r) in truth.rounds.iter().enumerate() {
        vensure!(r.len() == 254, "sweep-shape", "round {k}: {} probes, expected 254", r.len());
        for (i, e) in r.iter().enumerate() {
            let s = &log.sends[truth.round_sends[k][i]];
            let q = s.wire.as_ref().and_then(|w| crate::simnet::world::wire_sequence(&c.cfg, w));
            vensure!(
                matches!(e, Expected::Complete { .. }),
                "sweep-unanswered",
                "round {k} probe #{i} (sequence {q:?}) was answered by the network but the ground truth says it was not read in time"
            );
            if let Some(q) = q {
                if last.is_some_and(|l| q < l) {
                    wraps += 1;
                }
                last = Some(q);
                seqs.insert(q);
            }
        }
    }
    obs.extra_evals = log.sends.len() as u64;
    obs.class(format!("cell:{}", c.cfg.cell()));
    obs.nontrivial(&(c.cfg.cell(), c.cfg.initial_sequence, seqs.len(), wraps));
    obs.sample(json!({
        "cfg": c.cfg.cell(), "initial_sequence": c.cfg.initial_sequence, "rounds": c.rounds,
        "distinct_sequences_matched": seqs.len(), "lowest": seqs.iter().next(), "highest": seqs.iter().next_back(), "wraps": wraps,
    }));
    Ok(())
}

pub fn check() -> PropertyCheck {
    PropertyCheck {
        id: "C02",
        level: "exploration",
        rule: "identity-e2e: (supported configuration, world without loss whose nodes quote with the RFC minimum / minimum+n / whole datagram, with or without RFC 4884 extension (compliant or legacy), set or unset length attribute, remarked TOS, quoted TTL 0/1/other, IP options on the reply; plus quotations of datagrams never sent) by proptest, judged by the ground-truth outcome oracle; non-trivial = a response accepted through a distinct (cell, quotation class, extension shape, edit set) combination. sequence-sweep: for each of the 36 supported cells and boundary initial sequences a 254-hop world answers every probe; every probe must complete; evaluations count probes",
        assumptions: vec![
            "Paris / Dublin UDP in unprivileged mode is documented as unsupported and excluded (the CLI rejects it)",
            "NAT rewriting of the UDP checksum is not among the in-transit changes quantified over (it is the Paris sequence)",
        ],
        subs: vec![
            Box::new(Pbt {
                name: "identity-e2e",
                quick: 100_000,
                thorough: 2_000_000,
                strat,
                test,
                max_shrink: 3000,
            }),
            Box::new(Enumerated {
                name: "sequence-sweep",
                exhaustive_note: Some("thorough tier: every sequence number the state machine issues from the listed initial sequences over 262 full rounds, per supported cell"),
                cases: sweep_cases,
                test: sweep_test,
            }),
        ],
    }
}
