//! C02 A probe's identity survives the wire: encode, quote, decode, match.

use super::{c01, sim_case, SimCase};
use crate::engine::*;
use crate::oracle::Expected;
use crate::simnet::gen::GenOpts;
use crate::simnet::*;
use crate::wire::{ExtObject, ExtStructure, ExtStyle, MplsMember};
use crate::{vensure, vfail};
use proptest::strategy::BoxedStrategy;
use serde::{Deserialize, Serialize};
use serde_json::json;

fn opts() -> GenOpts {
    GenOpts {
        supported_only: true,
        sending_only: true,
        injections: true,
        inj_max: 6,
        loss: false,
        dups: false,
        late: false,
        max_hops: 30,
        long_path_pct: 4,
        rounds: (1, 4),
        ..GenOpts::default()
    }
}

fn strat() -> BoxedStrategy<SimCase> {
    sim_case(&opts())
}

/// TCP with connection attempts that stay outstanding for many rounds (the channel keeps up to
/// 256 of them) and handshake answers that arrive in order, out of order and many rounds late.
fn tcp_table_strat() -> BoxedStrategy<SimCase> {
    use proptest::prelude::*;
    (
        sim_case(&GenOpts {
            supported_only: true,
            sending_only: true,
            protocols: vec![Proto::Tcp],
            late: true,
            loss: true,
            max_hops: 40,
            long_path_pct: 0,
            rounds: (15, 50),
            exts: false,
            ..GenOpts::default()
        }),
        20u64..=300,
        prop_oneof![2 => Just(0u64), 2 => 1u64..=6, 2 => 5u64..=40],
        prop_oneof![1 => Just(0u64), 2 => 0u64..=3],
        12u8..=60,
    )
        .prop_map(|(mut c, timeout_rounds, jitter_rounds, delay_rounds, max_ttl)| {
            let round = c.cfg.max_round_ns.max(c.cfg.min_round_ns).max(1000);
            c.cfg.tcp_connect_timeout_ns = round.saturating_mul(timeout_rounds);
            c.cfg.first_ttl = 1;
            c.cfg.max_ttl = c.cfg.max_ttl.max(max_ttl);
            c.cfg.max_inflight = c.cfg.max_inflight.max(8);
            c.world.target.node.jitter_ns = round.saturating_mul(jitter_rounds);
            c.world.target.node.delay_ns = c.world.target.node.delay_ns.saturating_add(round.saturating_mul(delay_rounds) / 2);
            c
        })
        .boxed()
}

fn tcp_table_test(c: &SimCase, obs: &mut Obs) -> CheckResult {
    let log = run_trace(&c.cfg, &c.world);
    let Some(truth) = c01::check_outcomes(&log, obs)? else {
        return Ok(());
    };
    if let Some(Err(e)) = &log.result {
        vfail!("run-error", "run failed without any scripted fault: {e}");
    }
    let sends = log.sends.iter().filter(|s| s.wire.is_some()).count();
    let target_answers = truth.rounds.iter().flatten().filter(|e| matches!(e, Expected::Complete { .. })).count();
    if sends > 256 {
        obs.class("more-than-256-connects");
    }
    if sends > 256 && target_answers > 0 {
        obs.class("nontrivial");
        obs.nontrivial(&(c.cfg.cell(), sends / 32, truth.rounds.len(), target_answers / 8, c.world.target.node.jitter_ns / c.cfg.max_round_ns.max(1)));
    }
    obs.sample(json!({"cfg": c.cfg.cell(), "connects": sends, "rounds": truth.rounds.len(), "answers_accepted": target_answers}));
    Ok(())
}

// ---------------------------------------------------------------------------------------------
// the TCP half of the statement on the real `Channel`: connection attempts are dispatched, stay
// outstanding, are answered (connected / refused) at chosen instants in any order, and every
// answer to a probe that can still belong to the round in progress must be reported, once,
// with that probe's ports

#[derive(Clone, Debug, Serialize, Deserialize)]
pub enum ChOp {
    /// dispatch n probes; each is answered `delay` time units later (None: never)
    Send { n: u8, delay: Option<u16> },
    /// let time pass
    Wait(u16),
    /// call recv_probe until it has nothing more to report
    Recv,
}

#[derive(Clone, Debug, Serialize, Deserialize)]
pub struct ChCase {
    pub v6: bool,
    pub fixed_src: bool,
    pub refuse: bool,
    /// connect timeout in time units
    pub timeout: u32,
    pub ops: Vec<ChOp>,
}

fn channel_strat() -> BoxedStrategy<ChCase> {
    use proptest::prelude::*;
    let op = prop_oneof![
        5 => (prop_oneof![3 => 1u8..=30, 1 => 100u8..=254], prop_oneof![3 => Just(None), 2 => (0u16..=40).prop_map(Some), 2 => (0u16..=2000).prop_map(Some)]).prop_map(|(n, delay)| ChOp::Send { n, delay }),
        2 => prop_oneof![3 => 0u16..=20, 1 => 0u16..=1000].prop_map(ChOp::Wait),
        3 => Just(ChOp::Recv),
    ];
    (any::<bool>(), any::<bool>(), prop::bool::weighted(0.3), prop_oneof![3 => Just(1_000_000u32), 1 => 50u32..=3000], proptest::collection::vec(op, 1..=60))
        .prop_map(|(v6, fixed_src, refuse, timeout, ops)| ChCase { v6, fixed_src, refuse, timeout, ops })
        .boxed()
}

fn channel_test(c: &ChCase, obs: &mut Obs) -> CheckResult {
    use crate::simnet::world::{self, World};
    use crate::vclock;
    use std::time::{Duration, UNIX_EPOCH};
    use trippy_core::verif::{Channel, Network, ProtocolResponse, Response};
    use trippy_core::{Flags, Port, Probe, RoundId, Sequence, TimeToLive, TraceId};
    const UNIT: u64 = 1_000_000;
    let cfg = TraceCfg {
        v6: c.v6,
        protocol: Proto::Tcp,
        strategy: Strat::Classic,
        ports: if c.fixed_src { Ports::FixedSrc(5000) } else { Ports::FixedDest(80) },
        read_timeout_ns: UNIT / 10,
        tcp_connect_timeout_ns: u64::from(c.timeout) * UNIT,
        ..TraceCfg::default()
    };
    let mut spec = WorldSpec::simple(0);
    spec.target.kind = if c.refuse { TargetKind::Refuse } else { TargetKind::Normal };
    vclock::enable(crate::simnet::run::START_NS);
    world::install(World::new(cfg.clone(), spec));
    struct Guard;
    impl Drop for Guard {
        fn drop(&mut self) {
            let _ = crate::simnet::world::take();
            crate::vclock::disable();
        }
    }
    let _g = Guard;
    let mut ch = match catch(|| Channel::<SimSocket>::connect(&super::c04::channel_config(&cfg))) {
        Ok(Ok(ch)) => ch,
        Ok(Err(e)) => vfail!("connect", "Channel::connect failed: {e}"),
        Err(p) => vfail!(panic_sig(&p), "Channel::connect panicked: {p}"),
    };
    // model: every probe dispatched, in order: (sequence, due instant, dispatched at, reported)
    struct Ent {
        seq: u16,
        due: Option<u64>,
        start: u64,
        reported: bool,
    }
    let mut all: Vec<Ent> = vec![];
    let mut seq = 33434u16;
    let (mut reported_n, mut max_outstanding, mut out_of_order) = (0usize, 0usize, false);
    let timeout_ns = u64::from(c.timeout) * UNIT;
    for (i, op) in c.ops.iter().enumerate() {
        match *op {
            ChOp::Send { n, delay } => {
                for _ in 0..n {
                    let now = vclock::now_ns();
                    world::with(|w| w.spec.target.node.delay_ns = delay.map_or(u64::MAX / 4, |d| u64::from(d) * UNIT));
                    let (src_port, dest_port) = if c.fixed_src { (5000, seq) } else { (seq, 80) };
                    let probe = Probe {
                        sequence: Sequence(seq),
                        identifier: TraceId(0),
                        src_port: Port(src_port),
                        dest_port: Port(dest_port),
                        ttl: TimeToLive(64),
                        round: RoundId(0),
                        sent: UNIX_EPOCH + Duration::from_nanos(now),
                        flags: Flags::empty(),
                    };
                    match catch(|| ch.send_probe(probe)) {
                        Ok(Ok(())) => {}
                        Ok(Err(e)) => vfail!("dispatch-error", "step {i}: dispatching sequence {seq} failed: {e}"),
                        Err(p) => vfail!(panic_sig(&p), "step {i}: dispatching sequence {seq} panicked: {p}"),
                    }
                    all.push(Ent { seq, due: delay.map(|d| now + u64::from(d) * UNIT), start: now, reported: false });
                    seq = seq.wrapping_add(1);
                    if seq < 1024 {
                        seq = 1024;
                    }
                }
                let now = vclock::now_ns();
                max_outstanding = max_outstanding.max(all.iter().filter(|e| !e.reported && now - e.start < timeout_ns).count());
            }
            ChOp::Wait(u) => vclock::advance(u64::from(u) * UNIT),
            ChOp::Recv => {
                let at = vclock::now_ns();
                let mut got: Vec<u16> = vec![];
                for _ in 0..600 {
                    let r = match catch(|| ch.recv_probe()) {
                        Ok(Ok(r)) => r,
                        Ok(Err(e)) => vfail!("recv-error", "step {i}: recv_probe failed: {e}"),
                        Err(p) => vfail!(panic_sig(&p), "step {i}: recv_probe panicked: {p}"),
                    };
                    let Some(resp) = r else { break };
                    let (kind_ok, data) = match &resp {
                        Response::TcpReply(d) => (!c.refuse, d),
                        Response::TcpRefused(d) => (c.refuse, d),
                        other => vfail!("unexpected-response", "step {i}: recv_probe returned {other:?}"),
                    };
                    let ProtocolResponse::Tcp(t) = &data.proto_resp else { vfail!("unexpected-response", "step {i}: TCP response without TCP data: {resp:?}") };
                    let s = if c.fixed_src { t.dest_port } else { t.src_port };
                    let fixed_ok = if c.fixed_src { t.src_port == 5000 } else { t.dest_port == 80 };
                    vensure!(kind_ok && fixed_ok, "wrong-response", "step {i}: target {} but recv_probe returned {resp:?}", if c.refuse { "refuses" } else { "accepts" });
                    let Some(e) = all.iter_mut().rev().find(|e| e.seq == s) else { vfail!("unknown-probe", "step {i}: response names ports of no dispatched probe: {resp:?}") };
                    vensure!(!e.reported, "reported-twice", "step {i}: the answer to sequence {s} was reported twice");
                    vensure!(e.due.is_some_and(|d| d <= vclock::now_ns()), "answer-before-due", "step {i}: sequence {s} reported although the target has not answered it yet");
                    e.reported = true;
                    got.push(s);
                }
                reported_n += got.len();
                if got.windows(2).any(|w| w[0] > w[1]) {
                    out_of_order = true;
                }
                // every probe among the newest 254 (a round has at most 254 connection attempts, so
                // these may belong to the round in progress) whose answer was due when the call
                // sequence began, and whose connect timeout had not run out, must have been reported
                let n = all.len();
                for e in all.iter().skip(n.saturating_sub(254)) {
                    if !e.reported && e.due.is_some_and(|d| d <= at) && vclock::now_ns() - e.start < timeout_ns {
                        vfail!(
                            "answer-not-recognised",
                            "step {i}: the target answered the connection attempt with sequence {} ({} probes dispatched later), the attempt has not timed out, but recv_probe reports nothing for it",
                            e.seq,
                            all.iter().filter(|x| x.start > e.start || (x.start == e.start && x.seq > e.seq)).count()
                        );
                    }
                }
            }
        }
    }
    if max_outstanding >= 256 {
        obs.class("table-full");
    }
    if out_of_order {
        obs.class("answers-out-of-dispatch-order");
    }
    if reported_n > 0 && max_outstanding >= 200 {
        obs.class("nontrivial");
        obs.nontrivial(&(c.v6, c.fixed_src, c.refuse, max_outstanding / 16, reported_n / 8, out_of_order, c.ops.len()));
    }
    obs.sample(json!({"v6": c.v6, "ops": c.ops.len(), "dispatched": all.len(), "reported": reported_n, "max_outstanding": max_outstanding}));
    Ok(())
}

/// Identity also has to survive the sender's own hiccups: TCP probes re-issued under the next
/// sequence after address-in-use, probes that failed to send in between.
fn faults_test(c: &SimCase, obs: &mut Obs) -> CheckResult {
    let log = run_trace(&c.cfg, &c.world);
    let Some(truth) = c01::check_outcomes(&log, obs)? else {
        return Ok(());
    };
    let reissued = truth.rounds.iter().flatten().filter(|e| matches!(e, Expected::Skipped)).count();
    let answered = truth.rounds.iter().flatten().filter(|e| matches!(e, Expected::Complete { .. })).count();
    if reissued > 0 && answered > 0 {
        obs.class("nontrivial");
        obs.nontrivial(&(c.cfg.cell(), reissued, answered, truth.rounds.len()));
    }
    obs.sample(json!({"cfg": c.cfg.cell(), "reissued": reissued, "answered": answered}));
    Ok(())
}

fn quote_class(q: Quote) -> &'static str {
    match q {
        Quote::Min => "min",
        Quote::Extra(n) if n < 16 => "min+<16",
        Quote::Extra(_) => "min+>=16",
        Quote::Full => "full",
    }
}

fn test(c: &SimCase, obs: &mut Obs) -> CheckResult {
    let log = run_trace(&c.cfg, &c.world);
    let Some(truth) = c01::check_outcomes(&log, obs)? else {
        return Ok(());
    };
    if let Some(Err(e)) = &log.result {
        vfail!("run-error", "run failed without any scripted fault: {e}");
    }
    // classify the quotation shapes through which responses were accepted
    obs.class(format!("cell:{}", c.cfg.cell()));
    let mut accepted = 0usize;
    for (k, r) in truth.rounds.iter().enumerate() {
        for (i, e) in r.iter().enumerate() {
            if let Expected::Complete { .. } = e {
                accepted += 1;
                let s = &log.sends[truth.round_sends[k][i]];
                let path = &c.world.paths[s.path];
                let node = if s.responder_pos == path.hops.len() + 1 {
                    &c.world.target.node
                } else if s.responder_pos >= 1 {
                    &path.hops[s.responder_pos - 1]
                } else {
                    continue;
                };
                let edits = (
                    node.tos_rewrite.is_some() || path.hops.iter().take(s.responder_pos.saturating_sub(1)).any(|h| h.tos_rewrite.is_some()),
                    node.quoted_ttl,
                    node.reply_ip_options > 0,
                );
                let ext_shape = node.ext.as_ref().map(|e| (e.style, e.structure.objects.len()));
                obs.nontrivial(&(c.cfg.cell(), quote_class(node.quote), ext_shape, edits, node.set_len));
                obs.class(format!("quote:{}", quote_class(node.quote)));
                if node.ext.is_some() {
                    obs.class("with-extension");
                }
                if edits.0 {
                    obs.class("tos-remarked");
                }
            }
        }
    }
    for (_, l) in &truth.junk_read {
        obs.class(format!("rejected:{l}"));
    }
    if accepted > 0 {
        obs.class("nontrivial");
    }
    obs.sample(json!({
        "cfg": c.cfg.cell(), "packet_size": c.cfg.packet_size, "tos": c.cfg.tos, "initial_sequence": c.cfg.initial_sequence,
        "accepted": accepted, "rejected_junk": truth.junk_read.len(),
    }));
    Ok(())
}

// ---------------------------------------------------------------------------------------------
// exhaustive sequence sweep per supported cell

#[derive(Clone, Debug, Serialize, Deserialize)]
pub struct SweepCase {
    pub cfg: TraceCfg,
    pub rounds: u32,
}

pub fn supported_cells() -> Vec<TraceCfg> {
    let mut v = vec![];
    let mut n = 0u32;
    let mut push = |v6: bool, protocol: Proto, strategy: Strat, ports: Ports, privileged: bool| {
        n += 1;
        v.push(TraceCfg {
            v6,
            protocol,
            strategy,
            ports,
            privileged,
            ext_enabled: n % 2 == 0,
            ..TraceCfg::default()
        });
    };
    for v6 in [false, true] {
        for privileged in [true, false] {
            push(v6, Proto::Icmp, Strat::Classic, Ports::None, privileged);
            for ports in [Ports::FixedSrc(5000), Ports::FixedDest(33000)] {
                push(v6, Proto::Udp, Strat::Classic, ports, privileged);
                push(v6, Proto::Tcp, Strat::Classic, ports, privileged);
            }
        }
        for strategy in [Strat::Paris, Strat::Dublin] {
            for ports in [Ports::FixedSrc(5000), Ports::FixedDest(33000), Ports::FixedBoth(5000, 33000)] {
                push(v6, Proto::Udp, strategy, ports, true);
            }
        }
    }
    v
}

pub fn sweep_world() -> WorldSpec {
    let mut w = WorldSpec::simple(260);
    for (i, h) in w.paths[0].hops.iter_mut().enumerate() {
        h.addr = 100 + i as u16;
        h.delay_ns = 200;
        h.quote = [Quote::Min, Quote::Extra(12), Quote::Full][i % 3];
        h.quoted_ttl = (i % 2) as u8;
        if i % 5 == 0 {
            h.ext = Some(ExtSpec {
                structure: ExtStructure {
                    version: 2,
                    objects: vec![ExtObject::Mpls(vec![MplsMember { label: 16 + i as u32, exp: (i % 8) as u8, bos: 1, ttl: 1 }])],
                },
                style: if i % 10 == 0 { ExtStyle::Compliant } else { ExtStyle::Legacy },
            });
        }
        if i % 7 == 3 {
            h.tos_rewrite = Some((i * 4) as u8);
        }
        if i % 11 == 5 {
            h.set_len = true;
        }
    }
    w
}

pub fn sweep_cases(tier: Tier) -> Vec<SweepCase> {
    let mut out = vec![];
    for cell in supported_cells() {
        let inits: Vec<u16> = match tier {
            Tier::Quick => vec![0, 33434, 64511],
            Tier::Thorough => vec![0, 1, 33434, 64257, 64511],
        };
        for init in inits {
            let rounds = match tier {
                Tier::Quick => 12,
                // 254 sequences per round: 260 rounds walk the whole issuable range and wrap
                Tier::Thorough => 262,
            };
            let mut cfg = cell.clone();
            cfg.initial_sequence = init;
            cfg.first_ttl = 1;
            cfg.max_ttl = 254;
            cfg.max_inflight = 255;
            cfg.max_rounds = rounds;
            cfg.read_timeout_ns = 1000;
            cfg.min_round_ns = 0;
            cfg.max_round_ns = 400_000;
            cfg.grace_ns = 0;
            cfg.tcp_connect_timeout_ns = 3000;
            cfg.packet_size = if cfg.v6 { 64 + (init % 300) } else { 40 + (init % 300) };
            cfg.tos = (init % 251) as u8;
            cfg.pattern = (init % 256) as u8;
            out.push(SweepCase { cfg, rounds });
        }
    }
    out
}

fn sweep_test(c: &SweepCase, obs: &mut Obs) -> CheckResult {
    let world = sweep_world();
    let log = run_trace(&c.cfg, &world);
    let Some(truth) = c01::check_outcomes(&log, obs)? else {
        vfail!("sweep-not-run", "sweep configuration did not run: {:?}", log.build_error);
    };
    if let Some(Err(e)) = &log.result {
        vfail!("run-error", "run failed without any scripted fault: {e}");
    }
    vensure!(log.rounds.len() == c.rounds as usize, "rounds-published", "published {} of {} rounds", log.rounds.len(), c.rounds);
    let mut seqs = std::collections::BTreeSet::new();
    let mut wraps = 0;
    let mut last = None;
    for (k, r) in truth.rounds.iter().enumerate() {
        vensure!(r.len() == 254, "sweep-shape", "round {k}: {} probes, expected 254", r.len());
        for (i, e) in r.iter().enumerate() {
            let s = &log.sends[truth.round_sends[k][i]];
            let q = s.wire.as_ref().and_then(|w| crate::simnet::world::wire_sequence(&c.cfg, w));
            vensure!(
                matches!(e, Expected::Complete { .. }),
                "sweep-unanswered",
                "round {k} probe #{i} (sequence {q:?}) was answered by the network but the ground truth says it was not read in time"
            );
            if let Some(q) = q {
                if last.is_some_and(|l| q < l) {
                    wraps += 1;
                }
                last = Some(q);
                seqs.insert(q);
            }
        }
    }
    obs.extra_evals = log.sends.len() as u64;
    obs.class(format!("cell:{}", c.cfg.cell()));
    obs.nontrivial(&(c.cfg.cell(), c.cfg.initial_sequence, seqs.len(), wraps));
    obs.sample(json!({
        "cfg": c.cfg.cell(), "initial_sequence": c.cfg.initial_sequence, "rounds": c.rounds,
        "distinct_sequences_matched": seqs.len(), "lowest": seqs.iter().next(), "highest": seqs.iter().next_back(), "wraps": wraps,
    }));
    Ok(())
}

pub fn check() -> PropertyCheck {
    PropertyCheck {
        id: "C02",
        level: "exploration",
        rule: "identity-e2e: (supported configuration, world without loss whose nodes quote with the RFC minimum / minimum+n / whole datagram, with or without RFC 4884 extension (compliant or legacy), set or unset length attribute, remarked TOS, quoted TTL 0/1/other, IP options on the reply; plus quotations of datagrams never sent) by proptest, judged by the ground-truth outcome oracle; non-trivial = a response accepted through a distinct (cell, quotation class, extension shape, edit set) combination. sequence-sweep: for each of the 36 supported cells and boundary initial sequences a 254-hop world answers every probe; every probe must complete; evaluations count probes",
        assumptions: vec![
            "Paris / Dublin UDP in unprivileged mode is documented as unsupported and excluded (the CLI rejects it)",
            "NAT rewriting of the UDP checksum is not among the in-transit changes quantified over (it is the Paris sequence)",
        ],
        subs: vec![
            Box::new(Pbt {
                name: "identity-e2e",
                quick: 100_000,
                thorough: 2_000_000,
                strat,
                test,
                max_shrink: 3000,
            }),
            Box::new(Pbt {
                name: "identity-faults",
                quick: 40_000,
                thorough: 1_500_000,
                strat: super::c10::fault_strat,
                test: faults_test,
                max_shrink: 3000,
            }),
            Box::new(Pbt {
                name: "tcp-channel",
                quick: 20_000,
                thorough: 3_000_000,
                strat: channel_strat,
                test: channel_test,
                max_shrink: 3000,
            }),
            Box::new(Pbt {
                name: "tcp-table",
                quick: 600,
                thorough: 60_000,
                strat: tcp_table_strat,
                test: tcp_table_test,
                max_shrink: 2000,
            }),
            Box::new(Enumerated {
                name: "sequence-sweep",
                exhaustive_note: Some("thorough tier: every sequence number the state machine issues from the listed initial sequences over 262 full rounds, per supported cell"),
                cases: sweep_cases,
                test: sweep_test,
            }),
        ],
    }
}
