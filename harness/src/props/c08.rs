//! C08 Rounds end exactly when the timing policy says.

use super::{e2e, sim_case, SimCase};
use crate::engine::*;
use crate::simnet::gen::GenOpts;
use crate::simnet::*;
use proptest::strategy::BoxedStrategy;
use serde_json::json;

fn strat() -> BoxedStrategy<SimCase> {
    sim_case(&GenOpts {
        supported_only: true,
        sending_only: true,
        max_hops: 12,
        long_path_pct: 0,
        rounds: (1, 6),
        ..GenOpts::default()
    })
}

fn test(c: &SimCase, obs: &mut Obs) -> CheckResult {
    let log = run_trace(&c.cfg, &c.world);
    if e2e::prepare(&log, obs)?.is_none() {
        return Ok(());
    }
    e2e::check_timing(&log, obs)?;
    if c.cfg.read_timeout_ns == 0 {
        obs.class("read-timeout=0");
    }
    if c.cfg.min_round_ns == c.cfg.max_round_ns {
        obs.class("min=max");
    }
    if c.cfg.grace_ns == 0 {
        obs.class("grace=0");
    }
    if c.cfg.max_round_ns == 0 {
        obs.class("max=0");
    }
    obs.sample(json!({
        "min": c.cfg.min_round_ns, "max": c.cfg.max_round_ns, "grace": c.cfg.grace_ns, "read_timeout": c.cfg.read_timeout_ns,
        "publish_offsets": log.rounds.iter().map(|r| r.t_ns - log.start_ns).collect::<Vec<_>>(),
        "reasons": log.rounds.iter().map(|r| format!("{:?}", r.reason)).collect::<Vec<_>>(),
    }));
    Ok(())
}

/// The timing policy while packets that are not probe responses (foreign, malformed, unhandled
/// types, duplicates) keep arriving: a stray packet wakes the loop, it must not hold a round open.
fn junk_strat() -> BoxedStrategy<SimCase> {
    sim_case(&GenOpts {
        supported_only: true,
        sending_only: true,
        injections: true,
        inj_max: 16,
        max_hops: 12,
        long_path_pct: 0,
        rounds: (1, 6),
        ..GenOpts::default()
    })
}

/// The timing policy on runs with scripted socket faults (failed sends, TCP re-issues).
fn faults_test(c: &SimCase, obs: &mut Obs) -> CheckResult {
    let log = run_trace(&c.cfg, &c.world);
    if e2e::prepare(&log, obs)?.is_none() {
        return Ok(());
    }
    e2e::check_timing(&log, obs)?;
    obs.sample(json!({"cfg": c.cfg.cell(), "rounds": log.rounds.len()}));
    Ok(())
}

pub fn check() -> PropertyCheck {
    PropertyCheck {
        id: "C08",
        level: "exploration",
        rule: "cases = (configuration with min <= max round duration, grace, read timeout all small multiples of one time unit incl. 0; world whose delays are multiples of the same unit +-thirds) by proptest on a virtual clock; oracle = publish instants against the policy with a bookkeeping model fed with genuine responses only; non-trivial = a publish within 2 ns of a threshold or an early publish by target; distinct by (min,max,grace,read-timeout, publish instants)",
        assumptions: vec![
            "time advances only inside simulated socket calls (poll wait, optional per-call costs known to the oracle)",
            "a zero read timeout spins in steps of max-round/200 (the simulator's stand-in for CPU time)",
        ],
        subs: vec![Box::new(Pbt {
            name: "timing",
            quick: 150_000,
            thorough: 3_000_000,
            strat,
            test,
            max_shrink: 3000,
        }),
        Box::new(Pbt {
            name: "timing-junk",
            quick: 60_000,
            thorough: 1_500_000,
            strat: junk_strat,
            test: faults_test,
            max_shrink: 3000,
        }),
        Box::new(Pbt {
            name: "timing-faults",
            quick: 40_000,
            thorough: 1_500_000,
            strat: super::c10::fault_strat,
            test: faults_test,
            max_shrink: 3000,
        })],
    }
}
