//! C20 Snapshots are round-atomic while the tracer runs.

use super::{sim_case, SimCase};
use crate::engine::*;
use crate::simnet::gen::GenOpts;
use crate::simnet::*;
use crate::{vensure, vfail};
use proptest::prelude::*;
use proptest::strategy::BoxedStrategy;
use serde::{Deserialize, Serialize};
use serde_json::json;
use std::cell::Cell;
use std::collections::HashSet;
use std::sync::atomic::{AtomicBool, AtomicUsize, Ordering};
use std::sync::{Arc, Mutex};
use trippy_core::verif::StateConfig;
use trippy_core::{CompletionReason, FlowId, ProbeStatus, Round, State, TimeToLive};

thread_local! {
    /// set on the tracer thread of a C20 run: (stall pattern, call counter)
    static STALL: Cell<Option<(u64, u64)>> = const { Cell::new(None) };
}

fn spin(us: u64) {
    let t = std::time::Instant::now();
    while t.elapsed().as_micros() < u128::from(us) {
        std::hint::spin_loop();
    }
}

/// The yield hook: on the tracer thread of a run, stall part-way through a round every few calls
/// so that reader threads hammer the lock while the update is half done.
fn yield_hook(point: u8) {
    STALL.with(|s| {
        if let Some((pattern, n)) = s.get() {
            s.set(Some((pattern, n + 1)));
            let h = mix(pattern, n);
            match point {
                1 | 2 => spin(20 + h % 60),
                _ => {
                    if h % 7 == 0 {
                        spin(5 + h % 20);
                    }
                }
            }
            std::thread::yield_now();
        }
    });
}

/// A digest of everything observable through the public accessors of `State`.
pub fn digest(s: &State) -> u64 {
    let mut acc: Vec<u64> = vec![];
    let mut ids: Vec<FlowId> = s.flows().iter().map(|(_, id)| *id).collect();
    ids.sort();
    acc.push(hash64(&(s.round_flow_id().0, s.error().map(str::to_string), ids.len())));
    for (f, id) in s.flows() {
        acc.push(hash64(&(id.0, f.to_string())));
    }
    let mut all = vec![State::default_flow_id()];
    all.extend(ids);
    for id in all {
        acc.push(hash64(&(id.0, s.round_count(id), s.round(id), s.target_hop(id).ttl())));
        for h in s.hops_for_flow(id) {
            acc.push(hash64(&(
                (h.ttl(), h.total_sent(), h.total_recv(), h.total_failed(), h.total_forward_loss(), h.total_backward_loss()),
                (h.last_ms().map(f64::to_bits), h.best_ms().map(f64::to_bits), h.worst_ms().map(f64::to_bits), h.avg_ms().to_bits(), h.stddev_ms().to_bits()),
                (h.jitter_ms().map(f64::to_bits), h.javg_ms().to_bits(), h.jinta().to_bits(), h.jmax_ms().map(f64::to_bits)),
                (h.last_src_port(), h.last_dest_port(), h.last_sequence()),
                h.addrs_with_counts().map(|(a, c)| (*a, *c)).collect::<Vec<_>>(),
                h.samples().to_vec(),
                format!("{:?}{:?}{:?}{:?}", h.last_icmp_packet_type(), h.last_nat_status(), h.tos(), h.extensions()),
            )));
        }
    }
    hash64(&acc)
}

fn describe(s: &State) -> String {
    let d = State::default_flow_id();
    format!(
        "default flow: {} rounds, sent per hop {:?}; flows {:?}",
        s.round_count(d),
        s.hops().iter().map(trippy_core::Hop::total_sent).collect::<Vec<_>>(),
        s.flows().iter().map(|(_, id)| (id.0, s.round_count(*id), s.hops_for_flow(*id).iter().map(trippy_core::Hop::total_sent).collect::<Vec<_>>())).collect::<Vec<_>>()
    )
}

#[derive(Clone, Debug, Serialize, Deserialize)]
pub struct ConcCase {
    pub sim: SimCase,
    pub readers: u8,
    /// every n-th reader iteration issues clear() (0 = never)
    pub clear_every: u16,
    pub stall_pattern: u64,
}

fn strat() -> BoxedStrategy<ConcCase> {
    let base = sim_case(&GenOpts {
        supported_only: true,
        sending_only: true,
        protocols: vec![Proto::Udp, Proto::Udp, Proto::Icmp],
        max_hops: 8,
        long_path_pct: 0,
        rounds: (6, 24),
        injections: false,
        ..GenOpts::default()
    });
    (base, 1u8..=4, prop_oneof![1 => Just(0u16), 2 => 3u16..=60], any::<u64>())
        .prop_map(|(mut sim, readers, clear_every, stall_pattern)| {
            sim.cfg.max_ttl = sim.cfg.max_ttl.min(sim.cfg.first_ttl.saturating_add(10));
            sim.cfg.max_samples = sim.cfg.max_samples.min(8);
            ConcCase { sim, readers, clear_every, stall_pattern }
        })
        .boxed()
}

struct Obs1 {
    digest: u64,
    desc: String,
    /// rounds fully applied before the snapshot began / after it returned
    q_before: usize,
    q_after: usize,
    /// lower bound for the first round included (from this reader's latest clear)
    c_min: usize,
}

pub fn run_case(c: &ConcCase) -> Result<(usize, usize, usize), Fail> {
    trippy_core::verif::set_yield_hook(yield_hook);
    let cfg = &c.sim.cfg;
    let tracer = match cfg.build() {
        Ok(t) => t,
        Err(_) => return Ok((0, 0, 0)),
    };
    let published = Arc::new(AtomicUsize::new(0));
    let done = Arc::new(AtomicBool::new(false));
    let rounds: Arc<Mutex<Vec<(Vec<ProbeStatus>, u8, CompletionReason)>>> = Arc::new(Mutex::new(vec![]));
    let observations: Arc<Mutex<Vec<Obs1>>> = Arc::new(Mutex::new(vec![]));
    let clears = Arc::new(AtomicUsize::new(0));
    // (rounds applied before the clear was requested, rounds applied after it returned)
    let clear_windows: Arc<Mutex<Vec<(usize, usize)>>> = Arc::new(Mutex::new(vec![]));
    let log = std::thread::scope(|s| {
        for r in 0..c.readers {
            let tracer = tracer.clone();
            let published = published.clone();
            let done = done.clone();
            let observations = observations.clone();
            let clears = clears.clone();
            let clear_windows = clear_windows.clone();
            let clear_every = c.clear_every;
            s.spawn(move || {
                let mut c_min = 0usize;
                let mut it = 0u64;
                let mut local = vec![];
                loop {
                    let finished = done.load(Ordering::SeqCst);
                    it += 1;
                    if clear_every > 0 && it % u64::from(clear_every) == u64::from(r) % u64::from(clear_every) && !finished {
                        // rounds applied before the clear was requested stay cleared for good
                        let p = published.load(Ordering::SeqCst);
                        tracer.clear();
                        let p2 = published.load(Ordering::SeqCst);
                        clear_windows.lock().unwrap().push((p, p2));
                        c_min = p;
                        clears.fetch_add(1, Ordering::Relaxed);
                    }
                    let q_before = published.load(Ordering::SeqCst);
                    let snap = tracer.snapshot();
                    let q_after = published.load(Ordering::SeqCst);
                    local.push(Obs1 { digest: digest(&snap), desc: describe(&snap), q_before, q_after, c_min });
                    if finished || local.len() > 4000 {
                        break;
                    }
                    std::thread::yield_now();
                }
                observations.lock().unwrap().extend(local);
            });
        }
        let tracer2 = tracer.clone();
        let published = published.clone();
        let rounds = rounds.clone();
        let done2 = done.clone();
        let pattern = c.stall_pattern;
        let h = s.spawn(move || {
            STALL.with(|st| st.set(Some((pattern, 0))));
            let log = run_shared(tracer2, cfg, &c.sim.world, |round| {
                rounds.lock().unwrap().push((round.probes.to_vec(), round.largest_ttl.0, round.reason));
                published.fetch_add(1, Ordering::SeqCst);
                // let the readers in between rounds too
                spin(15);
            });
            STALL.with(|st| st.set(None));
            done2.store(true, Ordering::SeqCst);
            log
        });
        h.join().expect("tracer thread")
    });
    if let Some(p) = &log.panic {
        vfail!(panic_sig(p), "tracer panicked: {p}");
    }
    let rounds = rounds.lock().unwrap();
    let n = rounds.len();
    // every state reachable by applying whole consecutive rounds R[c..e) to an empty state
    let mk = || State::new(StateConfig { max_samples: cfg.max_samples, max_flows: cfg.max_flows });
    let mut valid: Vec<Vec<u64>> = vec![vec![0; n + 1]; n + 1];
    for c0 in 0..=n {
        let mut st = mk();
        valid[c0][c0] = digest(&st);
        for e in c0..n {
            let (probes, largest, reason) = &rounds[e];
            st.update_from_round(&Round::new(probes, TimeToLive(*largest), *reason));
            valid[c0][e + 1] = digest(&st);
        }
    }
    let obs = observations.lock().unwrap();
    // a state can only start at round c if nothing was ever cleared (c = 0) or a clear took
    // effect with c rounds applied
    let windows = clear_windows.lock().unwrap();
    let c_possible = |c0: usize| c0 == 0 || windows.iter().any(|(a, b)| *a <= c0 && c0 <= b + 1);
    let mut distinct = HashSet::new();
    for o in obs.iter() {
        distinct.insert(o.digest);
        let lo_e = o.q_before;
        let hi_e = (o.q_after + 1).min(n);
        let mut ok = false;
'outer: for c0 in o.c_min..=hi_e {
            if !c_possible(c0) {
                continue;
            }
            for e in lo_e.max(c0)..=hi_e {
                if valid[c0][e] == o.digest {
                    ok = true;
                    break 'outer;
                }
            }
        }
        if !ok {
            // tell a torn round / mixture from a merely stale or too-new whole state
            let anywhere = (0..=n).any(|c0| (c0..=n).any(|e| valid[c0][e] == o.digest));
            vensure!(
                anywhere,
                "torn-snapshot",
                "a snapshot equals no whole number of consecutive rounds applied to an empty state ({} rounds published, {} clears): {}",
                n,
                clears.load(Ordering::Relaxed),
                o.desc
            );
            vfail!(
                "stale-or-resurrected-snapshot",
                "a snapshot taken with {}..{} rounds applied (latest clear of this reader after {} rounds) shows a state outside that window: {}",
                o.q_before,
                o.q_after,
                o.c_min,
                o.desc
            );
        }
    }
    Ok((obs.len(), distinct.len(), clears.load(Ordering::Relaxed)))
}

fn test(c: &ConcCase, obs: &mut Obs) -> CheckResult {
    let (snapshots, distinct, clears) = run_case(c)?;
    obs.extra_evals = snapshots as u64;
    if distinct >= 3 {
        obs.class("nontrivial");
        obs.nontrivial(&(c.sim.cfg.cell(), c.readers, c.clear_every, c.stall_pattern, distinct));
    }
    if clears > 0 {
        obs.class("with-clear");
    }
    obs.class(format!("readers:{}", c.readers));
    obs.sample(json!({"cfg": c.sim.cfg.cell(), "rounds": c.sim.cfg.max_rounds, "readers": c.readers, "clear_every": c.clear_every, "snapshots": snapshots, "distinct_states_observed": distinct, "clears": clears}));
    Ok(())
}

/// Replays are not schedule-deterministic: re-run the case a number of times.
fn replay_many(c: &ConcCase, obs: &mut Obs) -> CheckResult {
    for _ in 0..40 {
        test(c, obs)?;
    }
    Ok(())
}

pub struct Conc;

impl SubCheck for Conc {
    fn name(&self) -> &str {
        "schedules"
    }
    fn run(&self, ctx: &Ctx, rep: &Report) {
        // real threads: run the cases from a few shards only, each case owns up to 5 threads
        let inner = Pbt { name: "schedules", quick: 3_000, thorough: 300_000, strat, test, max_shrink: 60 };
        inner.run(ctx, rep);
    }
    fn replay(&self, case: &serde_json::Value) -> CheckResult {
        let c: ConcCase = serde_json::from_value(case.clone()).map_err(|e| Fail::new("replay-decode", e.to_string()))?;
        replay_many(&c, &mut Obs::default())
    }
}

pub fn check() -> PropertyCheck {
    PropertyCheck {
        id: "C20",
        level: "exploration",
        rule: "each case = (UDP/ICMP configuration over a small ECMP world, 6..24 rounds, 1..4 reader threads, clear() every n-th reader iteration or never, stall pattern); the real tracer runs on its own thread over the simulated socket while readers loop snapshot()/clear(); add-only yield points inside State::update_from_round stall the writer part-way through a round (between the default-flow and per-flow update and between probes). Every snapshot's digest (all public getters of all flows) must equal fold(update_from_round, empty, R[c..e)) for some c >= the rounds applied before this reader's latest clear and q_before <= e <= q_after + 1. evaluations count snapshots; non-trivial = a run whose readers observed >= 3 distinct states; distinct by (cell, readers, clear rate, stall pattern, #states)",
        assumptions: vec![
            "schedules are sampled with real threads, not enumerated: a race needing a window outside the yield points can be missed; a failing schedule is not replayed deterministically (the replay re-runs the case 40 times)",
            "no wall-clock quantity is asserted",
        ],
        subs: vec![Box::new(Conc)],
    }
}
