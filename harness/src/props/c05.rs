//! C05 Per-hop statistics equal an independent re-aggregation of the rounds.
//! (Also hosts the synthetic history generator and the statistics model C15 re-uses.)

use crate::engine::*;
use crate::vensure;
use proptest::prelude::*;
use proptest::strategy::BoxedStrategy;
use serde::{Deserialize, Serialize};
use serde_json::json;
use std::net::{IpAddr, Ipv4Addr};
use std::time::{Duration, SystemTime, UNIX_EPOCH};
use trippy_core::verif::{Checksum, ProbeFailed, StateConfig};
use trippy_core::{
    CompletionReason, Extension, Extensions, Flags, Hop, IcmpPacketType, MplsLabelStack, MplsLabelStackMember, Port, Probe, ProbeComplete, ProbeStatus, Round, RoundId,
    Sequence, State, TimeToLive, TraceId, TypeOfService,
};

// ---------------------------------------------------------------------------------------------
// synthetic histories

#[derive(Clone, Debug, PartialEq, Eq, Serialize, Deserialize)]
pub enum SynProbe {
    Complete {
        host: u8,
        rtt_ns: u64,
        /// received earlier than sent by this much (clock step): the duration saturates to 0
        negative: bool,
        code: u8,
        kind: u8,
        tos: Option<u8>,
        ext: Option<u8>,
        cks: Option<(u16, u16)>,
    },
    Awaited,
    Failed,
    Skipped,
}

#[derive(Clone, Debug, PartialEq, Eq, Serialize, Deserialize)]
pub struct SynRound {
    /// one entry per TTL starting at first_ttl (Skipped entries do not consume a TTL)
    pub probes: Vec<SynProbe>,
    /// path length reported for the round: an index into the allowed values (0 or a probed TTL)
    pub largest_sel: u16,
}

#[derive(Clone, Debug, PartialEq, Eq, Serialize, Deserialize)]
pub struct History {
    pub first_ttl: u8,
    pub max_samples: usize,
    pub max_flows: usize,
    pub rounds: Vec<SynRound>,
}

pub fn host(ttl: u8, idx: u8) -> IpAddr {
    IpAddr::V4(Ipv4Addr::new(10, 9, ttl, idx))
}

fn t(ns: u64) -> SystemTime {
    UNIX_EPOCH + Duration::from_nanos(1_700_000_000_000_000_000 + ns)
}

/// Materialised round: the `ProbeStatus` list and the reported path length.
pub struct BuiltRound {
    pub probes: Vec<ProbeStatus>,
    pub largest_ttl: u8,
}

pub fn build_round(h: &History, k: usize, r: &SynRound, seq0: u16) -> BuiltRound {
    let mut probes = vec![];
    let mut ttl = h.first_ttl;
    let base = (k as u64) * 2_000_000_000;
    let mut probed: Vec<u8> = vec![];
    for (i, p) in r.probes.iter().enumerate() {
        if ttl == 255 {
            break;
        }
        let sequence = Sequence(seq0.wrapping_add(i as u16));
        let sent = t(base + (i as u64) * 1000);
        let mk_probe = || Probe {
            sequence,
            identifier: TraceId(77),
            src_port: Port(1000 + u16::from(ttl)),
            dest_port: Port(33434 + i as u16),
            ttl: TimeToLive(ttl),
            round: RoundId(k),
            sent,
            flags: Flags::empty(),
        };
        match p {
            SynProbe::Skipped => {
                probes.push(ProbeStatus::Skipped);
                continue;
            }
            SynProbe::Awaited => probes.push(ProbeStatus::Awaited(mk_probe())),
            SynProbe::Failed => {
                let q = mk_probe();
                probes.push(ProbeStatus::Failed(ProbeFailed {
                    sequence: q.sequence,
                    identifier: q.identifier,
                    src_port: q.src_port,
                    dest_port: q.dest_port,
                    ttl: q.ttl,
                    round: q.round,
                    sent: q.sent,
                }));
            }
            SynProbe::Complete { host: hidx, rtt_ns, negative, code, kind, tos, ext, cks } => {
                let q = mk_probe();
                let received = if *negative {
                    sent.checked_sub(Duration::from_nanos(*rtt_ns)).unwrap_or(sent)
                } else {
                    sent + Duration::from_nanos(*rtt_ns)
                };
                probes.push(ProbeStatus::Complete(ProbeComplete {
                    sequence: q.sequence,
                    identifier: q.identifier,
                    src_port: q.src_port,
                    dest_port: q.dest_port,
                    ttl: q.ttl,
                    round: q.round,
                    sent: q.sent,
                    host: host(ttl, *hidx),
                    received,
                    icmp_packet_type: match kind % 4 {
                        0 => IcmpPacketType::TimeExceeded(trippy_core::verif::IcmpPacketCode(*code)),
                        1 => IcmpPacketType::EchoReply(trippy_core::verif::IcmpPacketCode(*code)),
                        2 => IcmpPacketType::Unreachable(trippy_core::verif::IcmpPacketCode(*code)),
                        _ => IcmpPacketType::NotApplicable,
                    },
                    tos: tos.map(TypeOfService),
                    expected_udp_checksum: cks.map(|c| Checksum(c.0)),
                    actual_udp_checksum: cks.map(|c| Checksum(c.1)),
                    extensions: ext.map(|e| Extensions {
                        extensions: vec![Extension::Mpls(MplsLabelStack {
                            members: vec![MplsLabelStackMember { label: u32::from(e), exp: e % 8, bos: 1, ttl: e }],
                        })],
                    }),
                }));
            }
        }
        probed.push(ttl);
        ttl += 1;
    }
    // the strategy reports 0 or a TTL it probed in this round
    let largest_ttl = if probed.is_empty() {
        0
    } else {
        let n = probed.len() + 1;
        let i = usize::from(r.largest_sel) * n >> 16;
        if i == 0 {
            0
        } else {
            probed[i - 1]
        }
    };
    BuiltRound { probes, largest_ttl }
}

#[derive(Clone, Debug)]
pub struct HistOpts {
    pub max_rounds: usize,
    pub max_probes: usize,
    pub hosts_per_hop: u8,
    pub max_flows: (usize, usize),
    pub failed: bool,
    pub skipped: bool,
    pub first_ttl_max: u8,
}

impl Default for HistOpts {
    fn default() -> Self {
        Self { max_rounds: 40, max_probes: 12, hosts_per_hop: 3, max_flows: (1, 64), failed: true, skipped: true, first_ttl_max: 254 }
    }
}

pub fn syn_probe(o: &HistOpts) -> BoxedStrategy<SynProbe> {
    let hosts = o.hosts_per_hop.max(1);
    let complete = (
        0..hosts,
        prop_oneof![3 => 0u64..=50_000_000, 2 => 0u64..=3_000_000_000, 1 => Just(0u64), 1 => Just(1u64), 1 => 999_999_000u64..=1_000_001_000],
        prop::bool::weighted(0.03),
        0u8..4,
        0u8..4,
        prop_oneof![1 => Just(None), 1 => any::<u8>().prop_map(Some)],
        prop_oneof![3 => Just(None), 1 => any::<u8>().prop_map(Some)],
        prop_oneof![3 => Just(None), 1 => (0u16..4, 0u16..4).prop_map(Some)],
    )
        .prop_map(|(host, rtt_ns, negative, code, kind, tos, ext, cks)| SynProbe::Complete { host, rtt_ns, negative, code, kind, tos, ext, cks });
    let f = if o.failed { 1 } else { 0 };
    let s = if o.skipped { 1 } else { 0 };
    prop_oneof![
        10 => complete,
        4 => Just(SynProbe::Awaited),
        f => Just(SynProbe::Failed),
        s => Just(SynProbe::Skipped),
    ]
    .boxed()
}

pub fn history_strat(o: HistOpts) -> BoxedStrategy<History> {
    let probe = syn_probe(&o);
    let round = (proptest::collection::vec(probe, 0..=o.max_probes), any::<u16>()).prop_map(|(probes, largest_sel)| SynRound { probes, largest_sel });
    (
        prop_oneof![5 => Just(1u8), 2 => 1u8..=8, 1 => 1u8..=o.first_ttl_max],
        prop_oneof![2 => Just(256usize), 2 => 0usize..=6, 1 => 0usize..=40],
        o.max_flows.0..=o.max_flows.1,
        proptest::collection::vec(round, 0..=o.max_rounds),
    )
        .prop_map(|(first_ttl, max_samples, max_flows, rounds)| History { first_ttl, max_samples, max_flows, rounds })
        .boxed()
}

// ---------------------------------------------------------------------------------------------
// the model: a straightforward recomputation from the whole history

#[derive(Clone, Debug, Default)]
pub struct HopModel {
    /// every probe of this TTL in order: Some(rtt) complete, None awaited / failed
    pub events: Vec<HopEvent>,
}

#[derive(Clone, Debug)]
pub enum HopEvent {
    Complete { dur: Duration, host: IpAddr, src: u16, dst: u16, seq: u16, kind: IcmpPacketType, tos: Option<TypeOfService>, ext: Option<Extensions>, nat: Option<bool> },
    Awaited { src: u16, dst: u16, seq: u16, loss: Loss },
    Failed { src: u16, dst: u16, seq: u16 },
}

#[derive(Clone, Copy, Debug, PartialEq, Eq)]
pub enum Loss {
    None,
    Forward,
    Backward,
}

/// Classify the awaited probes of one round: the first awaited probe after which every probe
/// with a higher TTL is also awaited (and there is one) is forward loss; awaited probes after it
/// are backward loss.
pub fn classify_loss(probes: &[ProbeStatus]) -> Vec<Loss> {
    let ttl_of = |p: &ProbeStatus| match p {
        ProbeStatus::Awaited(a) => Some(a.ttl.0),
        ProbeStatus::Complete(c) => Some(c.ttl.0),
        ProbeStatus::Failed(f) => Some(f.ttl.0),
        _ => None,
    };
    let mut out = vec![Loss::None; probes.len()];
    let mut forward_seen = false;
    for (i, p) in probes.iter().enumerate() {
        let ProbeStatus::Awaited(a) = p else { continue };
        if forward_seen {
            out[i] = Loss::Backward;
            continue;
        }
        let later: Vec<&ProbeStatus> = probes.iter().filter(|q| ttl_of(q).is_some_and(|t| t > a.ttl.0)).collect();
        if !later.is_empty() && later.iter().all(|q| matches!(q, ProbeStatus::Awaited(_))) {
            out[i] = Loss::Forward;
            forward_seen = true;
        }
    }
    out
}

/// Aggregate rounds into per-TTL event lists.
pub fn aggregate(rounds: &[&BuiltRound]) -> Vec<HopModel> {
    let mut hops: Vec<HopModel> = vec![HopModel::default(); 256];
    for r in rounds {
        let loss = classify_loss(&r.probes);
        // NAT rule (C19), walked per round: a responder that quotes UDP checksums is compared
        // with the previous such responder of the round (the first: with the checksum as sent)
        let mut prev_quoted: Option<u16> = None;
        for (i, p) in r.probes.iter().enumerate() {
            match p {
                ProbeStatus::Complete(c) => hops[usize::from(c.ttl.0)].events.push(HopEvent::Complete {
                    nat: match (c.expected_udp_checksum, c.actual_udp_checksum) {
                        (Some(exp), Some(act)) => {
                            let differs = prev_quoted.map_or(exp.0 != act.0, |q| q != act.0);
                            prev_quoted = Some(act.0);
                            Some(differs)
                        }
                        _ => None,
                    },
                    dur: c.received.duration_since(c.sent).unwrap_or_default(),
                    host: c.host,
                    src: c.src_port.0,
                    dst: c.dest_port.0,
                    seq: c.sequence.0,
                    kind: c.icmp_packet_type,
                    tos: c.tos,
                    ext: c.extensions.clone(),
                }),
                ProbeStatus::Awaited(a) => hops[usize::from(a.ttl.0)].events.push(HopEvent::Awaited { src: a.src_port.0, dst: a.dest_port.0, seq: a.sequence.0, loss: loss[i] }),
                ProbeStatus::Failed(f) => hops[usize::from(f.ttl.0)].events.push(HopEvent::Failed { src: f.src_port.0, dst: f.dest_port.0, seq: f.sequence.0 }),
                _ => {}
            }
        }
    }
    hops
}

fn close(a: f64, b: f64, rel: f64) -> bool {
    (a - b).abs() <= rel * a.abs().max(b.abs()).max(1e-9)
}

/// NAT status of a hop: that of the latest response that quoted UDP checksums, else not applicable.
pub fn model_nat(m: &HopModel) -> trippy_core::NatStatus {
    match m.events.iter().rev().find_map(|e| if let HopEvent::Complete { nat: Some(d), .. } = e { Some(*d) } else { None }) {
        None => trippy_core::NatStatus::NotApplicable,
        Some(false) => trippy_core::NatStatus::NotDetected,
        Some(true) => trippy_core::NatStatus::Detected,
    }
}

/// Compare one hop of the real state with the model.
pub fn compare_hop(ctx: &str, hop: &Hop, m: &HopModel, max_samples: usize) -> CheckResult {
    let ttl = hop.ttl();
    let durs: Vec<Duration> = m.events.iter().filter_map(|e| if let HopEvent::Complete { dur, .. } = e { Some(*dur) } else { None }).collect();
    let sent = m.events.len();
    let recv = durs.len();
    let failed = m.events.iter().filter(|e| matches!(e, HopEvent::Failed { .. })).count();
    let fwd = m.events.iter().filter(|e| matches!(e, HopEvent::Awaited { loss: Loss::Forward, .. })).count();
    let bwd = m.events.iter().filter(|e| matches!(e, HopEvent::Awaited { loss: Loss::Backward, .. })).count();
    macro_rules! eq {
        ($what:expr, $got:expr, $want:expr) => {
            vensure!($got == $want, format!("hop-{}", $what), "{ctx} ttl {ttl}: {} = {:?}, recomputed {:?}", $what, $got, $want);
        };
    }
    eq!("total_sent", hop.total_sent(), sent);
    eq!("total_recv", hop.total_recv(), recv);
    eq!("total_failed", hop.total_failed(), failed);
    eq!("total_forward_loss", hop.total_forward_loss(), fwd);
    eq!("total_backward_loss", hop.total_backward_loss(), bwd);
    // conservation laws of the statement
    vensure!(hop.total_recv() + hop.total_failed() <= hop.total_sent(), "law-recv+failed<=sent", "{ctx} ttl {ttl}: recv {} + failed {} > sent {}", hop.total_recv(), hop.total_failed(), hop.total_sent());
    vensure!(
        hop.total_forward_loss() + hop.total_backward_loss() <= hop.total_sent() - hop.total_recv() - hop.total_failed(),
        "law-loss-split",
        "{ctx} ttl {ttl}: forward {} + backward {} > sent - recv - failed",
        hop.total_forward_loss(),
        hop.total_backward_loss()
    );
    let loss = if sent > 0 { (sent - recv) as f64 / sent as f64 * 100.0 } else { 0.0 };
    vensure!(close(hop.loss_pct(), loss, 1e-12), "hop-loss_pct", "{ctx} ttl {ttl}: loss_pct {} recomputed {loss}", hop.loss_pct());
    vensure!((0.0..=100.0).contains(&hop.loss_pct()), "law-loss-range", "{ctx} ttl {ttl}: loss_pct {}", hop.loss_pct());
    let fl = if sent > 0 { fwd as f64 / sent as f64 * 100.0 } else { 0.0 };
    let bl = if sent > 0 { bwd as f64 / sent as f64 * 100.0 } else { 0.0 };
    vensure!(close(hop.forward_loss_pct(), fl, 1e-12) && close(hop.backward_loss_pct(), bl, 1e-12), "hop-directional-loss_pct", "{ctx} ttl {ttl}: forward/backward loss pct {} / {} recomputed {fl} / {bl}", hop.forward_loss_pct(), hop.backward_loss_pct());
    let ms = |d: &Duration| d.as_secs_f64() * 1000.0;
    let opt_ms = |d: Option<&Duration>| d.map(ms);
    let last = durs.last();
    let best = durs.iter().min();
    let worst = durs.iter().max();
    eq!("last_ms", hop.last_ms(), opt_ms(last));
    eq!("best_ms", hop.best_ms(), opt_ms(best));
    eq!("worst_ms", hop.worst_ms(), opt_ms(worst));
    let total: Duration = durs.iter().sum();
    let avg = if recv > 0 { total.as_secs_f64() * 1000.0 / recv as f64 } else { 0.0 };
    vensure!(close(hop.avg_ms(), avg, 1e-9), "hop-avg_ms", "{ctx} ttl {ttl}: avg_ms {} recomputed {avg}", hop.avg_ms());
    if recv > 0 {
        let (b, w) = (ms(best.unwrap()), ms(worst.unwrap()));
        vensure!(b <= hop.avg_ms() * (1.0 + 1e-12) + 1e-12 && hop.avg_ms() <= w * (1.0 + 1e-12) + 1e-12, "law-best<=avg<=worst", "{ctx} ttl {ttl}: best {b} avg {} worst {w}", hop.avg_ms());
    }
    // two-pass sample standard deviation
    let sd = if recv > 1 {
        let mean = durs.iter().map(ms).sum::<f64>() / recv as f64;
        (durs.iter().map(|d| (ms(d) - mean).powi(2)).sum::<f64>() / (recv - 1) as f64).sqrt()
    } else {
        0.0
    };
    vensure!(
        (hop.stddev_ms() - sd).abs() <= 1e-6 * sd.max(1.0),
        "hop-stddev_ms",
        "{ctx} ttl {ttl}: stddev_ms {} recomputed (two-pass) {sd} over {recv} samples",
        hop.stddev_ms()
    );
    // jitter figures: defined by their recurrences (RFC 3550 A.8 for the smoothed value)
    let (mut prev, mut javg, mut jinta, mut jmax, mut jit): (Option<f64>, f64, f64, Option<Duration>, Option<Duration>) = (None, 0.0, 0.0, None, None);
    for (n, d) in durs.iter().enumerate() {
        let d_ms = ms(d);
        let j_ms = (d_ms - prev.unwrap_or(0.0)).abs();
        let j = Duration::from_secs_f64(j_ms / 1000.0);
        jit = prev.map(|_| j);
        javg += (j_ms - javg) / (n + 1) as f64;
        jinta += j_ms.max(0.5) - (jinta + 8.0) / 16.0;
        jmax = Some(jmax.map_or(j, |m: Duration| m.max(j)));
        prev = Some(d_ms);
    }
    eq!("jitter_ms", hop.jitter_ms(), jit.as_ref().map(ms));
    eq!("jmax_ms", hop.jmax_ms(), jmax.as_ref().map(ms));
    vensure!(close(hop.javg_ms(), javg, 1e-9), "hop-javg_ms", "{ctx} ttl {ttl}: javg {} recomputed {javg}", hop.javg_ms());
    vensure!(close(hop.jinta(), jinta, 1e-9), "hop-jinta", "{ctx} ttl {ttl}: jinta {} recomputed {jinta}", hop.jinta());
    // per-address counts (first-seen order)
    let mut addrs: Vec<(IpAddr, usize)> = vec![];
    for e in &m.events {
        if let HopEvent::Complete { host, .. } = e {
            match addrs.iter_mut().find(|(a, _)| a == host) {
                Some(x) => x.1 += 1,
                None => addrs.push((*host, 1)),
            }
        }
    }
    let got: Vec<(IpAddr, usize)> = hop.addrs_with_counts().map(|(a, c)| (*a, *c)).collect();
    eq!("addrs_with_counts", got, addrs);
    eq!("addr_count", hop.addr_count(), addrs.len());
    vensure!(hop.addrs_with_counts().map(|(_, c)| *c).sum::<usize>() == hop.total_recv(), "law-addr-sum", "{ctx} ttl {ttl}: address counts do not sum to received");
    // last-probe details
    if let Some(e) = m.events.last() {
        let (s, d, q) = match e {
            HopEvent::Complete { src, dst, seq, .. } | HopEvent::Awaited { src, dst, seq, .. } | HopEvent::Failed { src, dst, seq } => (*src, *dst, *seq),
        };
        eq!("last_src_port", hop.last_src_port(), s);
        eq!("last_dest_port", hop.last_dest_port(), d);
        eq!("last_sequence", hop.last_sequence(), q);
    }
    let last_complete = m.events.iter().rev().find_map(|e| if let HopEvent::Complete { kind, tos, ext, .. } = e { Some((*kind, *tos, ext.clone())) } else { None });
    eq!("last_icmp_packet_type", hop.last_icmp_packet_type(), last_complete.as_ref().map(|x| x.0));
    eq!("tos", hop.tos(), last_complete.as_ref().and_then(|x| x.1));
    eq!("extensions", hop.extensions().cloned(), last_complete.as_ref().and_then(|x| x.2.clone()));
    eq!("last_nat_status", hop.last_nat_status(), model_nat(m));
    // bounded newest-first history
    let mut samples: Vec<Duration> = m
        .events
        .iter()
        .rev()
        .map(|e| if let HopEvent::Complete { dur, .. } = e { *dur } else { Duration::ZERO })
        .collect();
    samples.truncate(max_samples);
    eq!("samples", hop.samples().to_vec(), samples);
    vensure!(hop.samples().len() <= max_samples, "law-sample-limit", "{ctx} ttl {ttl}: {} samples, limit {max_samples}", hop.samples().len());
    Ok(())
}

/// Apply a history to a fresh `State`, calling `after` once per round.
pub fn apply_history(h: &History, mut after: impl FnMut(usize, &BuiltRound, &State) -> CheckResult) -> Result<(State, Vec<BuiltRound>), Fail> {
    let mut state = State::new(StateConfig { max_samples: h.max_samples, max_flows: h.max_flows });
    let mut built = vec![];
    let mut seq = 33434u16;
    for (k, r) in h.rounds.iter().enumerate() {
        let b = build_round(h, k, r, seq);
        seq = seq.wrapping_add(b.probes.len() as u16);
        let round = Round::new(&b.probes, TimeToLive(b.largest_ttl), CompletionReason::TargetFound);
        state.update_from_round(&round);
        after(k, &b, &state)?;
        built.push(b);
    }
    Ok((state, built))
}

fn test(h: &History, obs: &mut Obs) -> CheckResult {
    // check after the last round and at two intermediate points
    let n = h.rounds.len();
    let checkpoints = [n / 3, 2 * n / 3];
    let mut so_far: Vec<BuiltRound> = vec![];
    let mut state = State::new(StateConfig { max_samples: h.max_samples, max_flows: h.max_flows });
    let mut seq = 33434u16;
    let check = |state: &State, rounds: &[BuiltRound], at: usize| -> CheckResult {
        let refs: Vec<&BuiltRound> = rounds.iter().collect();
        let model = aggregate(&refs);
        for hop in state.hops() {
            if hop.ttl() == 0 {
                continue;
            }
            compare_hop(&format!("after round {at} (default flow)"), hop, &model[usize::from(hop.ttl())], h.max_samples)?;
        }
        Ok(())
    };
    for (k, r) in h.rounds.iter().enumerate() {
        let b = build_round(h, k, r, seq);
        seq = seq.wrapping_add(b.probes.len() as u16);
        let round = Round::new(&b.probes, TimeToLive(b.largest_ttl), CompletionReason::TargetFound);
        state.update_from_round(&round);
        so_far.push(b);
        if checkpoints.contains(&(k + 1)) {
            check(&state, &so_far, k)?;
        }
    }
    check(&state, &so_far, n)?;
    // classification
    let hops = state.hops().iter().filter(|h| h.ttl() != 0).count();
    let any_loss = state.hops().iter().any(|h| h.total_recv() < h.total_sent());
    let changed_responder = state.hops().iter().any(|h| h.addr_count() > 1);
    if n >= 3 && hops >= 2 && any_loss && changed_responder {
        obs.class("nontrivial");
        obs.nontrivial(&serde_json::to_string(h).unwrap_or_default());
    }
    if h.first_ttl > 1 {
        obs.class("first-ttl>1");
    }
    if h.max_samples == 0 {
        obs.class("sample-limit-0");
    }
    if state.hops().iter().any(|h| h.total_forward_loss() > 0) {
        obs.class("forward-loss");
    }
    if state.hops().iter().any(|h| h.total_backward_loss() > 0) {
        obs.class("backward-loss");
    }
    if state.hops().iter().any(|h| h.total_failed() > 0) {
        obs.class("failed-probes");
    }
    obs.sample(json!({"first_ttl": h.first_ttl, "max_samples": h.max_samples, "rounds": n, "hops_reported": hops,
        "hop_summary": state.hops().iter().take(4).map(|h| format!("ttl {} sent {} recv {} avg {:.3} sd {:.3}", h.ttl(), h.total_sent(), h.total_recv(), h.avg_ms(), h.stddev_ms())).collect::<Vec<_>>() }));
    Ok(())
}

fn strat() -> BoxedStrategy<History> {
    history_strat(HistOpts::default())
}

/// Hops that answer from many addresses (per-packet load balancing): a pool of 16 per hop.
fn wide_pool_strat() -> BoxedStrategy<History> {
    history_strat(HistOpts { max_rounds: 60, max_probes: 5, hosts_per_hop: 16, ..HistOpts::default() })
}

fn long_strat() -> BoxedStrategy<History> {
    history_strat(HistOpts { max_rounds: 3000, max_probes: 6, hosts_per_hop: 2, ..HistOpts::default() })
}

// ---------------------------------------------------------------------------------------------
// histories produced by the real strategy over simulated networks

fn sim_test(c: &super::SimCase, obs: &mut Obs) -> CheckResult {
    use crate::simnet::run_trace;
    let log = run_trace(&c.cfg, &c.world);
    if super::e2e::prepare(&log, obs)?.is_none() {
        return Ok(());
    }
    let Some(state) = &log.snapshot else { return Ok(()) };
    let built: Vec<BuiltRound> = log.rounds.iter().map(|r| BuiltRound { probes: r.probes.clone(), largest_ttl: r.largest_ttl }).collect();
    let refs: Vec<&BuiltRound> = built.iter().collect();
    let model = aggregate(&refs);
    for hop in state.hops() {
        if hop.ttl() == 0 {
            continue;
        }
        compare_hop("simulated run (default flow)", hop, &model[usize::from(hop.ttl())], c.cfg.max_samples)?;
    }
    if log.rounds.len() >= 3 && state.hops().len() >= 2 && state.hops().iter().any(|h| h.total_recv() < h.total_sent()) {
        obs.class("nontrivial");
        obs.nontrivial(&(c.cfg.cell(), log.rounds.len(), state.hops().iter().map(|h| (h.total_sent(), h.total_recv())).collect::<Vec<_>>()));
    }
    Ok(())
}

fn sim_strat() -> BoxedStrategy<super::SimCase> {
    super::sim_case(&crate::simnet::gen::GenOpts { supported_only: true, sending_only: true, rounds: (2, 12), max_hops: 12, long_path_pct: 0, ..Default::default() })
}

pub fn check() -> PropertyCheck {
    PropertyCheck {
        id: "C05",
        level: "exploration",
        rule: "synthetic: histories of 0..40 rounds (long: up to 3000) of probes for consecutive TTLs from first-ttl 1..254, each complete (responder from a pool of 3 per hop, RTT 0..3 s incl. 0, 1 ns, ~1 s and received-before-sent), awaited, failed or skipped, sample limit 0..256, applied to the real State; after the last round and at two intermediate points every getter of every hop is compared with a recomputation from the whole history (sums, min/max, two-pass variance, newest-first window; jitter by its defining recurrence) and the statement's conservation laws are asserted. simulated: the same comparison on rounds published by the real strategy. Non-trivial = >= 3 rounds, >= 2 hops, a loss and a change of responder; distinct by the whole history",
        assumptions: vec![
            "floats: 1e-9 relative for means and jitter recurrences, 1e-6 for the standard deviation (Welford vs two-pass)",
            "forward loss = first awaited probe of a round after which every higher-TTL probe is awaited (and one exists); later awaited probes of that round are backward loss (doc comments of is_forward_loss)",
        ],
        subs: vec![
            Box::new(Pbt { name: "synthetic", quick: 100_000, thorough: 3_000_000, strat, test, max_shrink: 8000 }),
            Box::new(Pbt { name: "synthetic-many-addresses", quick: 10_000, thorough: 300_000, strat: wide_pool_strat, test, max_shrink: 4000 }),
            Box::new(Pbt { name: "synthetic-long", quick: 200, thorough: 20_000, strat: long_strat, test, max_shrink: 3000 }),
            Box::new(Pbt { name: "simulated", quick: 40_000, thorough: 500_000, strat: sim_strat, test: sim_test, max_shrink: 3000 }),
        ],
    }
}
