//! C07 Sequence numbers stay unique, in range and inside the round buffer.

use super::{c01, sim_case, SimCase};
use crate::engine::*;
use crate::simnet::gen::GenOpts;
use crate::simnet::*;
use crate::{vensure, vfail};
use proptest::prelude::*;
use proptest::strategy::BoxedStrategy;
use serde::{Deserialize, Serialize};
use serde_json::json;
use std::net::{IpAddr, Ipv4Addr, Ipv6Addr};
use std::time::{Duration, SystemTime, UNIX_EPOCH};
use trippy_core::verif::{StrategyConfig, VerifTracerState};
use trippy_core::{MaxInflight, MultipathStrategy, PortDirection, ProbeStatus, Protocol, Sequence, TimeToLive, TraceId};

#[derive(Clone, Copy, Debug, PartialEq, Eq, Hash, Serialize, Deserialize)]
pub enum Regime {
    /// ICMP / UDP: at most one sequence per TTL, 254 per round
    General254,
    /// TCP: re-issued probes may consume up to 512 sequences per round
    Tcp512,
    /// Dublin / IPv6: the sequence is carried as the payload length
    DublinV6,
    /// TCP with the Dublin strategy and an IPv6 target (accepted by the builder, not by the CLI):
    /// up to 512 sequences per round *and* the Dublin/IPv6 wrap threshold initial + 512
    TcpDublinV6,
}

impl Regime {
    fn max_per_round(self) -> u16 {
        match self {
            Regime::Tcp512 | Regime::TcpDublinV6 => 512,
            _ => 254,
        }
    }
}

pub fn config(init: u16, regime: Regime) -> StrategyConfig {
    let (protocol, strategy, target, ports) = match regime {
        Regime::General254 => (Protocol::Icmp, MultipathStrategy::Classic, IpAddr::V4(Ipv4Addr::new(10, 200, 0, 9)), PortDirection::None),
        Regime::Tcp512 => (Protocol::Tcp, MultipathStrategy::Classic, IpAddr::V4(Ipv4Addr::new(10, 200, 0, 9)), PortDirection::new_fixed_dest(80)),
        Regime::TcpDublinV6 => (
            Protocol::Tcp,
            MultipathStrategy::Dublin,
            IpAddr::V6(Ipv6Addr::new(0xfd00, 0, 0, 9, 0, 0, 0, 9)),
            PortDirection::new_fixed_dest(80),
        ),
        Regime::DublinV6 => (
            Protocol::Udp,
            MultipathStrategy::Dublin,
            IpAddr::V6(Ipv6Addr::new(0xfd00, 0, 0, 9, 0, 0, 0, 9)),
            PortDirection::new_fixed_src(5000),
        ),
    };
    StrategyConfig {
        target_addr: target,
        protocol,
        trace_identifier: TraceId(7),
        max_rounds: None,
        first_ttl: TimeToLive(1),
        max_ttl: TimeToLive(254),
        grace_duration: Duration::ZERO,
        max_inflight: MaxInflight(255),
        initial_sequence: Sequence(init),
        multipath_strategy: strategy,
        port_direction: ports,
        min_round_duration: Duration::ZERO,
        max_round_duration: Duration::ZERO,
    }
}

pub fn t0() -> SystemTime {
    UNIX_EPOCH + Duration::from_secs(1_600_000_000)
}

/// Issue `n` sequences in the current round: up to 254 new TTLs, the rest as re-issues.
fn issue(st: &mut VerifTracerState, n: u16, reissue_from: u16) -> Vec<u16> {
    let mut out = Vec::with_capacity(usize::from(n));
    for i in 0..n {
        let p = if i == 0 || (i < reissue_from && st.ttl().0 < 255) {
            st.next_probe(t0())
        } else {
            st.reissue_probe(t0())
        };
        out.push(p.sequence.0);
    }
    out
}

fn fingerprint(st: &VerifTracerState) -> (usize, usize, Option<u8>, Option<u8>, bool, Option<SystemTime>) {
    (
        st.probes().len(),
        st.probes().iter().filter(|p| matches!(p, ProbeStatus::Complete(_))).count(),
        st.max_received_ttl().map(|t| t.0),
        st.target_ttl().map(|t| t.0),
        st.target_found(),
        st.received_time(),
    )
}

/// Check one round of `n` sequences starting from the state `st` (at a round start), followed
/// by a round of `m`.  Returns the sequences of the round.
fn check_round(st: &mut VerifTracerState, init: u16, regime: Regime, n: u16, m: u16, start: u16) -> Result<(), Fail> {
    let mut deferred = None;
    check_round_inner(st, init, regime, n, m, start, &mut deferred)?;
    match deferred {
        Some(f) => Err(f),
        None => Ok(()),
    }
}

/// As `check_round`; a failure inside the recorded finding's region is stored in `deferred`
/// (first one only) instead of ending the exploration.
fn check_round_inner(
    st: &mut VerifTracerState,
    init: u16,
    regime: Regime,
    n: u16,
    m: u16,
    start: u16,
    deferred: &mut Option<Fail>,
) -> Result<(), Fail> {
    let reissue_from = if regime.max_per_round() == 512 { (n / 2).max(1) } else { n };
    let seqs = issue(st, n, reissue_from);
    for (i, q) in seqs.iter().enumerate() {
        vensure!(
            u32::from(*q) == u32::from(start) + i as u32,
            "not-consecutive",
            "init {init} {regime:?}: round starting at {start}: sequence #{i} is {q}"
        );
        vensure!(*q < 65535, "reaches-65535", "init {init} {regime:?}: sequence {q} issued");
        if regime == Regime::DublinV6 {
            // (TCP never dispatches through the Dublin/IPv6 payload path)
            vensure!(
                usize::from(*q - init) + 6 <= 976,
                "dublin-payload-too-long",
                "init {init}: sequence {q} needs a payload of {} octets (buffer 976)",
                usize::from(*q - init) + 6
            );
        }
    }
    vensure!(
        st.round_has_capacity() == (n < 512),
        "capacity-flag",
        "init {init} {regime:?}: after {n} sequences round_has_capacity() = {}",
        st.round_has_capacity()
    );
    vensure!(st.probes().len() == usize::from(n), "probes-len", "init {init}: probes() has {} entries after {n} sequences", st.probes().len());
    st.advance_round(TimeToLive(1));
    if m == 0 {
        return Ok(());
    }
    let next = issue(st, m, if regime.max_per_round() == 512 { (m / 2).max(1) } else { m });
    let s2 = next[0];
    let end = u32::from(start) + u32::from(n);
    vensure!(
        u32::from(s2) == end || s2 == init,
        "round-start",
        "init {init} {regime:?}: round [{start}, {end}) is followed by a round starting at {s2} (neither its end nor the initial sequence)"
    );
    vensure!(u32::from(s2) + 512 <= 65535, "no-room-for-round", "init {init}: round starts at {s2}, leaving fewer than 512 sequences below 65535");
    // a response naming any sequence of the preceding round must change nothing
    let before = fingerprint(st);
    for q in &seqs {
        if st.in_round(Sequence(*q)) {
            st.complete_probe(Sequence(*q), IpAddr::V4(Ipv4Addr::new(10, 1, 0, 1)), true, t0() + Duration::from_millis(1));
            let after = fingerprint(st);
            if after != before {
                let sig = if regime == Regime::Tcp512 && init > 63999 {
                    "prev-round-seq-valid:tcp>254-per-round:init>63999"
                } else if regime == Regime::TcpDublinV6 {
                    "prev-round-seq-valid:tcp>254-per-round:dublin-ipv6"
                } else {
                    "prev-round-seq-valid"
                };
                let f = Fail::new(
                    sig,
                    format!(
                        "init {init} {regime:?}: round [{start}, {end}) then round [{s2}, {}): a response naming sequence {q} of the preceding round completed a probe of the current one",
                        u32::from(s2) + u32::from(m)
                    ),
                );
                if sig != "prev-round-seq-valid" {
                    if deferred.is_none() {
                        *deferred = Some(f);
                    }
                    return Ok(());
                }
                return Err(f);
            }
        }
    }
    Ok(())
}

#[derive(Clone, Debug, Serialize, Deserialize)]
pub struct WalkCase {
    pub init: u16,
    pub regime: Regime,
    /// round-start sequences s_lo..s_hi (exclusive) are each tried with every round size
    pub s_lo: u16,
    pub s_hi: u16,
    pub n_step: u16,
}

/// Bring a fresh state to a round start at `s` (>= init) by rounds of re-issued probes.
fn reach(init: u16, regime: Regime, s: u16) -> Option<VerifTracerState> {
    let mut st = VerifTracerState::new(config(init, regime));
    let mut cur = init;
    while cur < s {
        let step = (s - cur).min(400);
        let got = issue(&mut st, step, 1);
        if got[0] != cur {
            return None;
        }
        st.advance_round(TimeToLive(1));
        cur += step;
    }
    // verify we are where we think we are
    let mut probe = st.clone();
    let p = issue(&mut probe, 1, 1);
    (p[0] == s).then_some(st)
}

fn max_sequence(init: u16, regime: Regime) -> u32 {
    match regime {
        Regime::DublinV6 | Regime::TcpDublinV6 => u32::from(init) + 512,
        _ => 65535 - 512,
    }
}

fn walk_cases(tier: Tier) -> Vec<WalkCase> {
    let inits: &[u16] = &[0, 1, 33434, 63999, 64000, 64257, 64258, 64510, 64511];
    let mut out = vec![];
    for &init in inits {
        for regime in [Regime::General254, Regime::Tcp512, Regime::DublinV6, Regime::TcpDublinV6] {
            let maxs = max_sequence(init, regime);
            // regions of round starts: near the initial sequence and near the wrap threshold
            let mut regions: Vec<(u32, u32)> = vec![(u32::from(init), (u32::from(init) + 600).min(maxs))];
            if maxs > u32::from(init) + 600 {
                regions.push((maxs.saturating_sub(600).max(u32::from(init) + 600), maxs));
            }
            let chunk = if tier == Tier::Quick { 600 } else { 40 };
            for (lo, hi) in regions {
                let mut a = lo;
                while a < hi {
                    let b = (a + chunk).min(hi);
                    out.push(WalkCase {
                        init,
                        regime,
                        s_lo: a as u16,
                        s_hi: b as u16,
                        n_step: if tier == Tier::Quick { 37 } else { 1 },
                    });
                    a = b;
                }
            }
        }
    }
    out
}

fn walk_test(c: &WalkCase, obs: &mut Obs) -> CheckResult {
    let nmax = c.regime.max_per_round();
    let Some(mut at) = reach(c.init, c.regime, c.s_lo) else {
        vfail!("unreachable-start", "cannot bring the state to round start {}", c.s_lo);
    };
    let mut transitions = 0u64;
    let mut wraps = 0u64;
    let mut deferred: Option<Fail> = None;
    let s_stride = if c.n_step > 1 { 13 } else { 1 };
    let mut s = c.s_lo;
    while s < c.s_hi {
        // every round size from this round start (boundary sizes always, the rest by n_step)
        let mut sizes: Vec<u16> = (0..=nmax).step_by(usize::from(c.n_step)).collect();
        for b in [0, 1, 2, 253, 254, 255, 256, 257, 258, 510, 511, 512] {
            if b <= nmax && !sizes.contains(&b) {
                sizes.push(b);
            }
        }
        for n in sizes {
            for m in [1u16, nmax.min(254), nmax] {
                let mut st = at.clone();
                check_round_inner(&mut st, c.init, c.regime, n, m, s, &mut deferred)?;
                transitions += 1;
                if u32::from(s) + u32::from(n) >= max_sequence(c.init, c.regime) {
                    wraps += 1;
                }
            }
        }
        // step the base state forward
        for _ in 0..s_stride {
            if s >= c.s_hi {
                break;
            }
            let got = issue(&mut at, 1, 1);
            vensure!(got[0] == s, "walk-desync", "expected round start {s}, state issued {}", got[0]);
            at.advance_round(TimeToLive(1));
            s += 1;
            if u32::from(s) >= max_sequence(c.init, c.regime) {
                s = c.s_hi;
            }
        }
    }
    obs.extra_evals = transitions.saturating_sub(1);
    obs.nontrivial(&(c.init, c.regime, c.s_lo, c.s_hi));
    if wraps > 0 {
        obs.class("with-wrap");
    }
    obs.class(format!("regime:{:?}", c.regime));
    obs.sample(json!({"init": c.init, "regime": format!("{:?}", c.regime), "round_starts": [c.s_lo, c.s_hi], "transitions": transitions, "wrapping_transitions": wraps}));
    if let Some(f) = deferred {
        // the whole chunk was explored; report the recorded finding's signature once
        return Err(f);
    }
    Ok(())
}

// ---------------------------------------------------------------------------------------------
// random round-size histories

#[derive(Clone, Debug, Serialize, Deserialize)]
pub struct HistCase {
    pub init: u16,
    pub regime: Regime,
    pub rounds: Vec<u16>,
}

fn hist_strat() -> BoxedStrategy<HistCase> {
    (
        crate::simnet::gen::initial_sequence(),
        prop_oneof![Just(Regime::General254), Just(Regime::Tcp512), Just(Regime::DublinV6), Just(Regime::TcpDublinV6)],
    )
        .prop_flat_map(|(init, regime)| {
            let nmax = regime.max_per_round();
            let size = prop_oneof![4 => 0u16..=40, 2 => 200u16..=nmax, 1 => Just(nmax), 1 => 0u16..=nmax];
            (Just(init), Just(regime), proptest::collection::vec(size, 2..400))
        })
        .prop_map(|(init, regime, rounds)| HistCase { init, regime, rounds })
        .boxed()
}

fn hist_test(c: &HistCase, obs: &mut Obs) -> CheckResult {
    // the recorded finding lives in this region; it is reported by the exhaustive walk
    if (c.regime == Regime::Tcp512 && c.init > 63999) || c.regime == Regime::TcpDublinV6 {
        obs.excluded("known finding region: TCP rounds of more than 254 sequences with initial sequence > 63999 or Dublin/IPv6");
        return Ok(());
    }
    let mut st = VerifTracerState::new(config(c.init, c.regime));
    let mut start = c.init;
    let mut wraps = 0;
    let mut big = false;
    for w in c.rounds.windows(2) {
        let (n, m) = (w[0], w[1]);
        // check_round issues the next round too; replay it on a clone so the chain continues
        let mut probe = st.clone();
        check_round(&mut probe, c.init, c.regime, n, m.max(1), start)?;
        let _ = issue(&mut st, n, if c.regime.max_per_round() == 512 { (n / 2).max(1) } else { n });
        st.advance_round(TimeToLive(1));
        let mut peek = st.clone();
        let next = issue(&mut peek, 1, 1)[0];
        if next == c.init && u32::from(start) + u32::from(n) != u32::from(c.init) {
            wraps += 1;
        }
        if n > 254 {
            big = true;
        }
        start = next;
    }
    if wraps > 0 {
        obs.class("with-wrap");
    }
    if wraps > 0 || big {
        obs.class("nontrivial");
        obs.nontrivial(&(c.init, c.regime, &c.rounds));
    }
    obs.sample(json!({"init": c.init, "regime": format!("{:?}", c.regime), "rounds": c.rounds.len(), "wraps": wraps}));
    Ok(())
}

// ---------------------------------------------------------------------------------------------
// end to end: TCP address-in-use storms

fn storm_strat() -> BoxedStrategy<SimCase> {
    let base = sim_case(&GenOpts {
        supported_only: true,
        sending_only: true,
        protocols: vec![Proto::Tcp],
        max_hops: 8,
        long_path_pct: 0,
        rounds: (2, 6),
        exts: false,
        ..GenOpts::default()
    });
    (
        base,
        proptest::collection::vec((prop_oneof![Just(Stage::Bind), Just(Stage::Connect)], 0u16..=60, prop_oneof![4 => 0u16..=30, 2 => 200u16..=520, 1 => 480u16..=530]), 1..=4),
        prop_oneof![3 => 0u16..=63999, 1 => Just(33434u16)],
    )
        .prop_map(|(mut c, storms, init)| {
            // initial sequences above 63999, and TCP with the Dublin strategy over IPv6, are the
            // recorded findings' regions (see known_findings.json)
            c.cfg.initial_sequence = init;
            if c.cfg.v6 && c.cfg.strategy == Strat::Dublin {
                c.cfg.strategy = Strat::Classic;
            }
            c.world.faults = storms
                .into_iter()
                .map(|(stage, nth, repeat)| FaultSpec { stage, nth, errno: libc::EADDRINUSE, repeat })
                .collect();
            c
        })
        .boxed()
}

fn seq_of(p: &ProbeStatus) -> Option<u16> {
    match p {
        ProbeStatus::Awaited(a) => Some(a.sequence.0),
        ProbeStatus::Complete(a) => Some(a.sequence.0),
        ProbeStatus::Failed(a) => Some(a.sequence.0),
        _ => None,
    }
}

fn storm_test(c: &SimCase, obs: &mut Obs) -> CheckResult {
    let log = run_trace(&c.cfg, &c.world);
    if let Some(p) = &log.panic {
        vfail!(panic_sig(p), "tracer panicked: {p}");
    }
    if let Some(a) = &log.aborted {
        vfail!("abort", "run did not terminate within the deterministic cap: {a}");
    }
    // sequences consumed per round, from the simulator's log
    let mut per_round = vec![0usize; log.rounds.len() + 1];
    for s in &log.sends {
        if s.round < per_round.len() {
            per_round[s.round] += 1;
        }
    }
    let exhausted = per_round.iter().any(|n| *n >= 512);
    match &log.result {
        Some(Err(e)) => {
            vensure!(
                exhausted && e.contains("insufficient buffer capacity"),
                "unexpected-error",
                "run ended with `{e}`; sequences consumed per round {per_round:?}"
            );
            obs.class("capacity-error");
        }
        Some(Ok(())) => {
            vensure!(!per_round.iter().any(|n| *n > 512), "over-budget", "a round consumed more than 512 sequences: {per_round:?}");
        }
        None => {}
    }
    // published rounds: consecutive sequences by position, in range, within the buffer
    let mut prev_end: Option<u32> = None;
    for (k, r) in log.rounds.iter().enumerate() {
        vensure!(r.probes.len() <= 512, "round-too-long", "round {k} published {} entries", r.probes.len());
        let first = r.probes.iter().enumerate().find_map(|(i, p)| seq_of(p).map(|q| u32::from(q) - i as u32));
        if let Some(first) = first {
            for (i, p) in r.probes.iter().enumerate() {
                if let Some(q) = seq_of(p) {
                    vensure!(u32::from(q) == first + i as u32, "not-consecutive", "round {k}: entry #{i} has sequence {q}, round starts at {first}");
                    vensure!(q < 65535, "reaches-65535", "round {k}: sequence {q}");
                }
            }
            if let Some(pe) = prev_end {
                vensure!(
                    first == pe || first == u32::from(c.cfg.initial_sequence),
                    "round-start",
                    "round {k} starts at {first}; previous round ended at {pe}, initial sequence {}",
                    c.cfg.initial_sequence
                );
            }
            prev_end = Some(first + r.probes.len() as u32);
        } else {
            prev_end = prev_end.map(|pe| pe + r.probes.len() as u32);
        }
    }
    let _ = c01::check_outcomes(&log, obs)?;
    let maxn = per_round.iter().max().copied().unwrap_or(0);
    if maxn > 254 {
        obs.class("round>254-sequences");
        obs.class("nontrivial");
        obs.nontrivial(&(c.cfg.cell(), c.cfg.initial_sequence, per_round.clone()));
    }
    obs.sample(json!({"cfg": c.cfg.cell(), "initial_sequence": c.cfg.initial_sequence, "sequences_per_round": per_round, "result": format!("{:?}", log.result)}));
    Ok(())
}

/// The same invariants under storms of *transient* send failures (IPv4: host / network
/// unreachable, EINVAL for ICMP, address-not-available at bind): every failed probe still uses up
/// a sequence number and a TTL, so a round stays within 254 of them however long the storm lasts.
/// Rounds are made long enough (700 read timeouts) for a storm to fit into one round.
fn fail_storm_strat() -> BoxedStrategy<SimCase> {
    let base = sim_case(&GenOpts {
        supported_only: true,
        sending_only: true,
        max_hops: 8,
        long_path_pct: 0,
        rounds: (2, 5),
        exts: false,
        ..GenOpts::default()
    });
    (base, proptest::collection::vec((0u16..=40, prop_oneof![3 => 0u16..=30, 2 => 200u16..=520, 2 => 500u16..=650], 0u8..3), 1..=3))
        .prop_map(|(mut c, storms)| {
            c.cfg.v6 = false;
            if c.cfg.strategy != Strat::Classic && !c.cfg.privileged {
                c.cfg.strategy = Strat::Classic;
            }
            // 700 polls per round whatever the time unit of the case
            c.cfg.read_timeout_ns = (c.cfg.max_round_ns / 700).max(1000);
            c.cfg.max_round_ns = c.cfg.read_timeout_ns * 700;
            c.cfg.min_round_ns = c.cfg.min_round_ns.min(c.cfg.max_round_ns);
            c.cfg.tcp_connect_timeout_ns = c.cfg.tcp_connect_timeout_ns.min(c.cfg.max_round_ns);
            c.cfg.max_ttl = c.cfg.max_ttl.max(c.cfg.first_ttl);
            let cfg = c.cfg.clone();
            c.world.faults = storms
                .into_iter()
                .map(|(nth, repeat, pick)| {
                    let (stage, errno) = match (cfg.protocol, cfg.privileged) {
                        (Proto::Icmp, _) => (Stage::SendTo, [libc::EHOSTUNREACH, libc::ENETUNREACH, libc::EINVAL][usize::from(pick)]),
                        (Proto::Udp, true) => (Stage::SendTo, [libc::EHOSTUNREACH, libc::ENETUNREACH, libc::EHOSTUNREACH][usize::from(pick)]),
                        (Proto::Udp, false) => (Stage::Bind, libc::EADDRNOTAVAIL),
                        (Proto::Tcp, _) => [(Stage::Bind, libc::EADDRNOTAVAIL), (Stage::Connect, libc::ENETUNREACH), (Stage::Bind, libc::EADDRNOTAVAIL)][usize::from(pick)],
                    };
                    FaultSpec { stage, nth, errno, repeat }
                })
                .collect();
            c
        })
        .boxed()
}

fn fail_storm_test(c: &SimCase, obs: &mut Obs) -> CheckResult {
    storm_test(c, obs)?;
    let log_failed = c.world.faults.iter().map(|f| usize::from(f.repeat) + 1).max().unwrap_or(0);
    if log_failed > 254 {
        obs.class("storm-longer-than-a-round");
    }
    Ok(())
}

// ---------------------------------------------------------------------------------------------
// "the Dublin/IPv6 payload length derived from the sequence always fits the packet buffer": the
// clause is about the dispatch code, so it is run - every offset a trace can reach is put on the
// simulated wire

fn payload_cases(tier: Tier) -> Vec<super::c02::SweepCase> {
    let mut out = vec![];
    for c in super::c02::sweep_cases(tier) {
        if !(c.cfg.v6 && c.cfg.strategy == Strat::Dublin && c.cfg.protocol == Proto::Udp) {
            continue;
        }
        // 254 probes per round (offsets 0..=761), and 73 per round: the eighth round then starts at
        // offset 511, the highest start there is
        for max_ttl in [254u8, 73] {
            let mut c = c.clone();
            c.cfg.max_ttl = max_ttl;
            c.rounds = if max_ttl == 254 { 4 } else { 9 };
            c.cfg.max_rounds = c.rounds;
            c.cfg.packet_size = 1024;
            out.push(c);
        }
    }
    out
}

fn payload_test(c: &super::c02::SweepCase, obs: &mut Obs) -> CheckResult {
    let log = run_trace(&c.cfg, &super::c02::sweep_world());
    if let Some(p) = &log.panic {
        vfail!(panic_sig(p), "tracer panicked: {p}");
    }
    if let Some(a) = &log.aborted {
        vfail!("abort", "run did not terminate within the deterministic cap: {a}");
    }
    if let Some(Err(e)) = &log.result {
        vfail!("run-error", "run failed without any scripted fault: {e}");
    }
    let mut max_off = 0u16;
    let mut n = 0u64;
    for s in &log.sends {
        let Some(w) = &s.wire else { continue };
        n += 1;
        vensure!(w.datagram.len() <= 1024, "datagram-too-long", "send of {} octets exceeds the 1024-octet packet buffer", w.datagram.len());
        if let Some(seq) = crate::simnet::world::wire_sequence(&c.cfg, w) {
            max_off = max_off.max(seq.wrapping_sub(c.cfg.initial_sequence));
        }
    }
    vensure!(n >= u64::from(c.rounds) * u64::from(c.cfg.max_ttl), "sweep-shape", "only {n} probes in {} rounds of {}", c.rounds, c.cfg.max_ttl);
    vensure!(max_off >= 511, "sweep-shape", "highest offset reached is {max_off}");
    obs.extra_evals = n.saturating_sub(1);
    obs.class(format!("max-offset:{max_off}"));
    obs.nontrivial(&(c.cfg.cell(), c.cfg.initial_sequence, c.cfg.max_ttl));
    Ok(())
}

pub fn check() -> PropertyCheck {
    PropertyCheck {
        id: "C07",
        level: "exploration",
        rule: "sequence-walk: for 9 boundary initial sequences x 4 regimes (<=254 per round, TCP <=512 per round, Dublin/IPv6, TCP+Dublin+IPv6) the real TracerState is brought to every round start within 600 of the initial sequence and within 600 of the wrap threshold and, from a clone, every round size 0..=max (thorough; every 37th plus boundaries in quick) followed by a round of 1 / 254 / max is issued through next_probe / reissue_probe / advance_round and checked: consecutive, < 65535, <= 512, next round starts at the previous end or the initial sequence, Dublin payload fits, and a response naming any sequence of the preceding round changes nothing; evaluations count (round start, size, next size) transitions. history: random round-size sequences up to 400 rounds. tcp-storm: simulated TCP runs with address-in-use storms of up to 530 consecutive bind/connect failures. send-failure-storm: IPv4 runs of every protocol with storms of up to 650 consecutive transient send failures inside rounds long enough to hold them. Non-trivial = a wrap occurred or a round consumed > 254 sequences",
        assumptions: vec![
            "the gate `in_round(sequence)` of Strategy::recv_response is mirrored by the walk before it calls complete_probe",
            "round starts farther than 600 from both the initial sequence and the wrap threshold behave like their neighbours (no wrap is possible from there) and are reached only by the history sub-check",
        ],
        subs: vec![
            Box::new(Enumerated {
                name: "sequence-walk",
                exhaustive_note: Some("thorough tier: all (round start in the two 600-wide regions, round size 0..=max, next size in {1,254,max}) for 9 initial sequences x 4 regimes"),
                cases: walk_cases,
                test: walk_test,
            }),
            Box::new(Pbt {
                name: "history",
                quick: 10_000,
                thorough: 1_000_000,
                strat: hist_strat,
                test: hist_test,
                max_shrink: 2000,
            }),
            Box::new(Pbt {
                name: "tcp-storm",
                quick: 30_000,
                thorough: 1_500_000,
                strat: storm_strat,
                test: storm_test,
                max_shrink: 2000,
            }),
            Box::new(Pbt {
                name: "send-failure-storm",
                quick: 20_000,
                thorough: 600_000,
                strat: fail_storm_strat,
                test: fail_storm_test,
                max_shrink: 2000,
            }),
            Box::new(Enumerated {
                name: "dublin-v6-payload-fits",
                exhaustive_note: Some("every sequence offset a UDP/Dublin/IPv6 trace can reach with rounds of 254 and of 73 probes (offsets 0..=761, round starts up to 511) dispatched through the real channel"),
                cases: payload_cases,
                test: payload_test,
            }),
        ],
    }
}
