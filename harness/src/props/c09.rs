//! C09 Termination, round count and failure semantics.

use super::{c01, e2e, sim_case, SimCase};
use crate::engine::*;
use crate::oracle;
use crate::simnet::gen::GenOpts;
use crate::simnet::*;
use crate::{vensure, vfail};
use proptest::prelude::*;
use proptest::strategy::BoxedStrategy;
use serde_json::json;

pub const ERRNOS: [i32; 7] = [
    libc::EHOSTUNREACH,
    libc::ENETUNREACH,
    libc::EINVAL,
    libc::EADDRINUSE,
    libc::EADDRNOTAVAIL,
    libc::EIO,
    libc::ENOBUFS,
];

/// The socket-call stages a dispatch of this configuration goes through.
pub fn send_stages(cfg: &TraceCfg) -> Vec<Stage> {
    match (cfg.protocol, cfg.privileged, cfg.v6) {
        (Proto::Tcp, _, _) => vec![Stage::NewSocket, Stage::Bind, Stage::Connect],
        (Proto::Udp, false, _) => vec![Stage::NewSocket, Stage::Bind, Stage::SendTo],
        (_, _, true) => vec![Stage::SetOpt, Stage::SendTo],
        (_, _, false) => vec![Stage::SendTo],
    }
}

pub fn recv_stages(cfg: &TraceCfg) -> Vec<Stage> {
    if cfg.protocol == Proto::Tcp {
        vec![Stage::Poll, Stage::Read, Stage::TakeError]
    } else {
        vec![Stage::Poll, Stage::Read]
    }
}

#[derive(Clone, Copy, Debug, PartialEq, Eq)]
pub enum FaultClass {
    Transient,
    Reissue,
    WouldBlock,
    Fatal,
}

pub fn classify_fault(cfg: &TraceCfg, stage: Stage, errno: i32) -> FaultClass {
    match stage {
        Stage::Bind | Stage::Connect | Stage::SendTo => {
            if oracle::is_reissue(cfg, stage, errno) {
                FaultClass::Reissue
            } else if oracle::is_transient(cfg, stage, errno) {
                FaultClass::Transient
            } else {
                FaultClass::Fatal
            }
        }
        Stage::Read => {
            if errno == libc::EAGAIN || errno == libc::EWOULDBLOCK {
                FaultClass::WouldBlock
            } else {
                FaultClass::Fatal
            }
        }
        Stage::NewSocket | Stage::SetOpt | Stage::Poll | Stage::TakeError => FaultClass::Fatal,
    }
}

fn faults_for(cfg: &TraceCfg) -> BoxedStrategy<Vec<FaultSpec>> {
    let ss = send_stages(cfg);
    let rs = recv_stages(cfg);
    let one = prop_oneof![
        3 => (proptest::sample::select(ss), 0u16..=40, proptest::sample::select(ERRNOS.to_vec())).prop_map(|(stage, nth, errno)| FaultSpec { stage, nth, errno, repeat: 0 }),
        1 => (proptest::sample::select(rs), prop_oneof![0u16..=20, 0u16..=300], proptest::sample::select(vec![libc::EIO, libc::EAGAIN, libc::ECONNRESET])).prop_map(|(stage, nth, errno)| FaultSpec { stage, nth, errno, repeat: 0 }),
    ];
    proptest::collection::vec(one, 0..=4).boxed()
}

fn strat() -> BoxedStrategy<SimCase> {
    sim_case(&GenOpts {
        supported_only: true,
        sending_only: true,
        max_hops: 10,
        long_path_pct: 0,
        rounds: (1, 5),
        ..GenOpts::default()
    })
    .prop_flat_map(|c| {
        let f = faults_for(&c.cfg);
        (Just(c), f)
    })
    .prop_map(|(mut c, f)| {
        c.world.faults = f;
        c
    })
    .boxed()
}

/// The oracle shared by the random and the enumerated fault scripts.
pub fn check_faulted_run(c: &SimCase, log: &RunLog, obs: &mut Obs) -> CheckResult {
    let cfg = &c.cfg;
    if let Some(p) = &log.panic {
        vfail!(panic_sig(p), "tracer panicked: {p}");
    }
    if let Some(a) = &log.aborted {
        vfail!("abort", "run did not terminate within the deterministic cap: {a}");
    }
    if log.build_error.is_some() {
        obs.excluded("builder-rejected");
        return Ok(());
    }
    // which scripted faults were hit, in order
    let hits: Vec<(Stage, i32, FaultClass)> = log
        .events
        .iter()
        .filter_map(|e| match e {
            Event::Fault { stage, errno, .. } => Some((*stage, *errno, classify_fault(cfg, *stage, *errno))),
            _ => None,
        })
        .collect();
    let first_fatal = hits.iter().position(|h| h.2 == FaultClass::Fatal);
    let n = cfg.max_rounds as usize;
    // publishes are numbered 0..k-1 in order (each probe carries its round id)
    for (k, r) in log.rounds.iter().enumerate() {
        for p in &r.probes {
            let rid = match p {
                trippy_core::ProbeStatus::Awaited(a) => Some(a.round.0),
                trippy_core::ProbeStatus::Complete(a) => Some(a.round.0),
                trippy_core::ProbeStatus::Failed(a) => Some(a.round.0),
                _ => None,
            };
            if let Some(rid) = rid {
                vensure!(rid == k, "round-numbering", "publish #{k} contains a probe of round {rid}");
            }
        }
    }
    vensure!(log.rounds.len() <= n, "too-many-rounds", "{} rounds published with a limit of {n}", log.rounds.len());
    match (first_fatal, &log.result) {
        (None, Some(Ok(()))) => {
            vensure!(log.rounds.len() == n, "round-count", "run returned Ok after {} of {n} rounds", log.rounds.len());
        }
        (None, Some(Err(e))) => {
            vfail!(
                "nonfatal-ended-run",
                "run ended with `{e}` although no fatal fault was injected (faults hit: {hits:?})"
            );
        }
        (Some(i), Some(Ok(()))) => {
            vfail!("fatal-swallowed", "fault {:?} is fatal for this configuration but the run returned Ok", hits[i]);
        }
        (Some(i), Some(Err(e))) => {
            vensure!(i == hits.len() - 1, "continued-after-fatal", "the tracer kept making socket calls after the fatal fault {:?}: {hits:?}", hits[i]);
            vensure!(log.rounds.len() < n || n == 0, "fatal-but-all-rounds", "fatal fault {:?} hit but all {n} rounds were published", hits[i]);
            let (_, errno, _) = hits[i];
            let os = std::io::Error::from_raw_os_error(errno).to_string();
            vensure!(
                e.contains(&os) || hits[i].0 == Stage::Bind && e.contains("in use"),
                "wrong-error",
                "run ended with `{e}`, which does not carry the injected error `{os}`"
            );
            let snap_err = log.snapshot.as_ref().and_then(|s| s.error().map(str::to_string));
            vensure!(
                snap_err.as_deref() == Some(e.as_str()),
                "error-not-visible",
                "run ended with `{e}` but snapshot().error() = {snap_err:?}"
            );
        }
        (_, None) => {}
    }
    if first_fatal.is_none() {
        let snap_err = log.snapshot.as_ref().and_then(|s| s.error().map(str::to_string));
        vensure!(snap_err.is_none(), "spurious-error", "no fatal fault but snapshot().error() = {snap_err:?}");
    }
    // published rounds obey the outcome oracle (Failed for transient, Skipped for re-issue)
    if let Some(truth) = c01::check_outcomes(log, obs)? {
        e2e::check_schedule(log, &mut Obs::default())?;
        let failed = truth.rounds.iter().flatten().filter(|e| matches!(e, oracle::Expected::Failed { .. })).count();
        let skipped = truth.rounds.iter().flatten().filter(|e| matches!(e, oracle::Expected::Skipped)).count();
        if failed > 0 {
            obs.class("probe-failed");
        }
        if skipped > 0 {
            obs.class("probe-skipped-reissued");
        }
        // a fault at the first or last probe of a round
        let edge = truth.round_sends.iter().any(|s| {
            s.first().is_some_and(|i| log.sends[*i].failed.is_some()) || s.last().is_some_and(|i| log.sends[*i].failed.is_some())
        });
        if edge {
            obs.class("fault-at-round-edge");
        }
        if !hits.is_empty() {
            obs.class("nontrivial");
            let sig: Vec<(Stage, i32)> = hits.iter().map(|h| (h.0, h.1)).collect();
            obs.nontrivial(&(cfg.cell(), sig, log.rounds.len(), failed, skipped, edge));
        }
    }
    for h in &hits {
        obs.class(format!("hit:{:?}", h.2));
    }
    if first_fatal.is_some() {
        obs.class("fatal-run");
    }
    Ok(())
}

fn test(c: &SimCase, obs: &mut Obs) -> CheckResult {
    let log = run_trace(&c.cfg, &c.world);
    check_faulted_run(c, &log, obs)?;
    obs.sample(json!({
        "cfg": c.cfg.cell(), "faults": c.world.faults.iter().map(|f| format!("{:?}#{} errno {}", f.stage, f.nth, f.errno)).collect::<Vec<_>>(),
        "result": format!("{:?}", log.result), "rounds_published": log.rounds.len(), "max_rounds": c.cfg.max_rounds,
    }));
    Ok(())
}

// ---------------------------------------------------------------------------------------------
// bounded-exhaustive scripts for small configurations

fn small_cases(tier: Tier) -> Vec<SimCase> {
    let mut out = vec![];
    let mut cells = super::c02::supported_cells();
    // also the unprivileged UDP multipath cells (run for termination, not identity)
    for c in &mut cells {
        c.first_ttl = 1;
        c.max_ttl = 3;
        c.max_inflight = 24;
        c.max_rounds = 2;
        c.read_timeout_ns = 1_000_000;
        c.min_round_ns = 5_000_000;
        c.max_round_ns = 10_000_000;
        c.grace_ns = 1_000_000;
        c.tcp_connect_timeout_ns = 8_000_000;
    }
    for cfg in cells {
        let mut world = WorldSpec::simple(2);
        for h in &mut world.paths[0].hops {
            h.delay_ns = 500_000;
        }
        world.target.node.delay_ns = 700_000;
        let ss = send_stages(&cfg);
        let rs = recv_stages(&cfg);
        let mut singles: Vec<FaultSpec> = vec![];
        for st in &ss {
            for nth in 0..6u16 {
                for e in ERRNOS {
                    singles.push(FaultSpec { stage: *st, nth, errno: e, repeat: 0 });
                }
            }
        }
        for st in &rs {
            for nth in [0u16, 1, 2, 3, 5, 9, 14] {
                for e in [libc::EIO, libc::EAGAIN] {
                    if *st != Stage::Read && e == libc::EAGAIN {
                        continue;
                    }
                    singles.push(FaultSpec { stage: *st, nth, errno: e, repeat: 0 });
                }
            }
        }
        out.push(SimCase { cfg: cfg.clone(), world: world.clone() });
        for f in &singles {
            let mut w = world.clone();
            w.faults = vec![f.clone()];
            out.push(SimCase { cfg: cfg.clone(), world: w });
        }
        // pairs: every non-fatal single combined with every single that comes later
        let step = if tier == Tier::Quick { 7 } else { 1 };
        let mut n = 0usize;
        for (i, a) in singles.iter().enumerate() {
            if classify_fault(&cfg, a.stage, a.errno) == FaultClass::Fatal {
                continue;
            }
            for b in singles.iter().skip(i + 1) {
                n += 1;
                if n % step != 0 {
                    continue;
                }
                if a.stage == b.stage && a.nth == b.nth {
                    continue;
                }
                let mut w = world.clone();
                w.faults = vec![a.clone(), b.clone()];
                out.push(SimCase { cfg: cfg.clone(), world: w });
            }
        }
    }
    out
}

/// Fault-free long runs: every supported cell from initial sequences that make the sequence
/// numbers wrap within the run, over paths whose round sizes do not tile the 512-wide window.
/// Same oracle (exactly n rounds, in order, Ok).
fn long_cases(tier: Tier) -> Vec<SimCase> {
    let mut out = vec![];
    for cell in super::c02::supported_cells() {
        let shapes: &[(u16, usize, u32)] = match tier {
            // (initial sequence, hops, rounds)
            Tier::Quick => &[(33434, 30, 40), (64511, 254, 8), (62500, 100, 36)],
            Tier::Thorough => &[(33434, 30, 120), (0, 254, 264), (64511, 254, 12), (62500, 100, 60), (64000, 37, 200), (1, 5, 400)],
        };
        for &(init, hops, rounds) in shapes {
            let mut cfg = cell.clone();
            cfg.initial_sequence = init;
            cfg.first_ttl = 1;
            cfg.max_ttl = 254;
            cfg.max_inflight = 255;
            cfg.max_rounds = rounds;
            cfg.read_timeout_ns = 1000;
            cfg.min_round_ns = 0;
            cfg.max_round_ns = 400_000;
            cfg.grace_ns = 0;
            cfg.tcp_connect_timeout_ns = 3000;
            cfg.packet_size = if cfg.v6 { 64 } else { 40 } + (init % 200);
            let mut world = WorldSpec::simple(hops);
            for h in &mut world.paths[0].hops {
                h.delay_ns = 200;
            }
            world.target.node.delay_ns = 200;
            out.push(SimCase { cfg, world });
        }
    }
    out
}

/// "A fatal socket error ends the run with that error and makes it visible in subsequent
/// snapshots" also holds for errors met while the tracer sets itself up, before the first probe.
/// This is the one place where the real `Tracer::run` (platform sockets) is called: a source
/// address that is not local makes the validation bind fail without any packet leaving the host.
#[derive(Clone, Debug, serde::Serialize, serde::Deserialize)]
pub struct StartupCase {
    pub v6: bool,
    pub protocol: Proto,
    pub privileged: bool,
    pub spawned: bool,
}

fn startup_cases(_tier: Tier) -> Vec<StartupCase> {
    let mut out = vec![];
    for v6 in [false, true] {
        for protocol in [Proto::Icmp, Proto::Udp, Proto::Tcp] {
            for privileged in [true, false] {
                for spawned in [false, true] {
                    out.push(StartupCase { v6, protocol, privileged, spawned });
                }
            }
        }
    }
    out
}

fn startup_test(c: &StartupCase, obs: &mut Obs) -> CheckResult {
    use std::net::IpAddr;
    // TEST-NET-3 / documentation prefix: never configured on an interface
    let (target, source): (IpAddr, IpAddr) = if c.v6 { ("2001:db8::9".parse().unwrap(), "2001:db8::77".parse().unwrap()) } else { ("203.0.113.9".parse().unwrap(), "203.0.113.77".parse().unwrap()) };
    let cfg = TraceCfg { v6: c.v6, protocol: c.protocol, privileged: c.privileged, ports: if c.protocol == Proto::Icmp { Ports::None } else { Ports::FixedDest(33434) }, ..TraceCfg::default() };
    let built = trippy_core::Builder::new(target)
        .source_addr(Some(source))
        .protocol(cfg.protocol())
        .port_direction(cfg.port_direction())
        .privilege_mode(if c.privileged { trippy_core::PrivilegeMode::Privileged } else { trippy_core::PrivilegeMode::Unprivileged })
        .max_rounds(Some(1))
        .build();
    let tracer = match built {
        Ok(t) => t,
        Err(_) => {
            obs.excluded("startup: builder-rejected");
            return Ok(());
        }
    };
    // real sockets: run on a helper thread and give up (inconclusive, not a violation) if the
    // platform neither fails nor finishes the one-round run within 20 s
    let (tx, rx) = std::sync::mpsc::channel();
    let (t2, spawned) = (tracer.clone(), c.spawned);
    std::thread::spawn(move || {
        let r = catch(|| {
            if spawned {
                match t2.clone().spawn() {
                    Ok((_, handle)) => handle.join().unwrap_or_else(|_| Ok(())),
                    Err(e) => Err(e),
                }
            } else {
                t2.run()
            }
        });
        let _ = tx.send(r.map(|x| x.map_err(|e| e.to_string())));
    });
    let r = match rx.recv_timeout(std::time::Duration::from_secs(20)) {
        Ok(r) => r.map_err(|p| Fail::new(panic_sig(&p), format!("Tracer::run panicked while setting up: {p}")))?,
        Err(_) => {
            obs.excluded("startup: the run neither failed nor finished within 20 s on this host");
            return Ok(());
        }
    };
    match r {
        Ok(()) => {
            // the host lets processes bind addresses it does not own: nothing to observe
            obs.excluded("startup: bind to a foreign address succeeded on this host");
        }
        Err(e) => {
            let shown = tracer.snapshot().error().map(str::to_string);
            vensure!(shown.as_deref() == Some(e.as_str()), "startup-error-not-in-snapshot", "the run ended with `{e}` before the first probe, snapshot().error() = {shown:?}");
            obs.class("startup-error-recorded");
            obs.nontrivial(&(c.v6, format!("{:?}", c.protocol), c.privileged, c.spawned));
        }
    }
    Ok(())
}

pub fn check() -> PropertyCheck {
    PropertyCheck {
        id: "C09",
        level: "fault_enumeration",
        rule: "fault scripts = (stage of the dispatch or receive path, n-th call of that stage, errno). random: 0..4 faults over generated configurations and worlds; enumerated: for each of the 36 supported cells with max-ttl 3 and 2 rounds, every single fault at the first 6 calls of every send stage x 7 errnos and at 7 positions of every receive stage, and every pair (non-fatal first fault x later fault; every 7th pair in the quick tier). Oracle = exactly n publishes numbered in order and Ok when no fatal fault was hit; a fatal fault ends the run with that error, leaves a prefix of rounds, stops all socket activity and shows in snapshot().error(); transient -> Failed for that probe only; TCP address-in-use -> Skipped + same TTL under the next sequence. round-count-long: fault-free runs of every supported cell long enough for the sequence numbers to wrap (round sizes 6 / 31 / 101 / 254 against the 512-wide window). Non-trivial = at least one scripted fault was hit (or a long run completed); distinct by (cell, faults hit, rounds, failed, skipped, edge)",
        assumptions: vec![
            "which errno is transient per cell is tabulated from the ErrorMapper call sites (ipv4.rs / ipv6.rs) and stated in oracle::is_transient",
            "malformed inbound packets are C04's domain and are not part of 'whatever responses the network returns'",
        ],
        subs: vec![
            Box::new(Pbt {
                name: "fault-scripts-random",
                quick: 200_000,
                thorough: 8_000_000,
                strat,
                test,
                max_shrink: 3000,
            }),
            Box::new(Enumerated {
                name: "fault-scripts-enumerated",
                exhaustive_note: Some("all single faults and (thorough: all; quick: every 7th) pairs at the listed positions for the small configuration of every supported cell"),
                cases: small_cases,
                test,
            }),
            Box::new(Enumerated {
                name: "startup-error",
                exhaustive_note: None,
                cases: startup_cases,
                test: startup_test,
            }),
            Box::new(Enumerated {
                name: "round-count-long",
                exhaustive_note: None,
                cases: long_cases,
                test,
            }),
        ],
    }
}
