//! C16 Option precedence is CLI over file over default; accepted configs can run.

use super::SimCase;
use crate::engine::*;
use crate::simnet::*;
use crate::{vensure, vfail};
use clap::Parser;
use proptest::prelude::*;
use proptest::strategy::BoxedStrategy;
use serde::{Deserialize, Serialize};
use serde_json::json;
use std::collections::BTreeMap;
use trippy_privilege::Privilege;
use trippy_tui::verif::{build_config, Args, ConfigFile, TrippyConfig, TuiColor, TuiKeyBinding};

/// Where an option's value comes from in a generated case.
#[derive(Clone, Copy, Debug, PartialEq, Eq, Hash, Serialize, Deserialize)]
pub enum Src {
    Absent,
    File,
    Cli,
    Both,
    /// boolean flags only: the file says `false`
    FileFalse,
    /// boolean flags only: CLI flag given while the file says `false`
    CliOverFileFalse,
}

#[derive(Clone, Copy, PartialEq, Eq)]
enum Kind {
    Value,
    Flag,
}

struct Opt {
    name: &'static str,
    section: &'static str,
    kind: Kind,
    /// observed value when neither source sets it
    default: &'static str,
    /// (TOML literal, observed) for the file value
    file: (&'static str, &'static str),
    /// (CLI text, observed) for the command line value
    cli: (&'static str, &'static str),
    obs: fn(&TrippyConfig) -> String,
}

macro_rules! opt {
    ($name:expr, $section:expr, $default:expr, ($ft:expr, $fo:expr), ($ct:expr, $co:expr), |$c:ident| $obs:expr) => {
        Opt { name: $name, section: $section, kind: Kind::Value, default: $default, file: ($ft, $fo), cli: ($ct, $co), obs: |$c| $obs }
    };
}
macro_rules! flag {
    ($name:expr, $section:expr, |$c:ident| $obs:expr) => {
        Opt { name: $name, section: $section, kind: Kind::Flag, default: "false", file: ("true", "true"), cli: ("", "true"), obs: |$c| $obs }
    };
}

/// The option table: flag `--<name>`, file key `[section] <name>`, documented default
/// (trippy-config-sample.toml / `trip --help`), two further valid values.
fn options() -> Vec<Opt> {
    vec![
        opt!("mode", "trippy", "Tui", ("\"stream\"", "Stream"), ("json", "Json"), |c| format!("{:?}", c.mode)),
        flag!("unprivileged", "trippy", |c| (format!("{:?}", c.privilege_mode) == "Unprivileged").to_string()),
        opt!("log-format", "trippy", "Pretty", ("\"json\"", "Json"), ("compact", "Compact"), |c| format!("{:?}", c.log_format)),
        opt!("log-filter", "trippy", "trippy=debug", ("\"aaa=info\"", "aaa=info"), ("bbb=warn", "bbb=warn"), |c| c.log_filter.clone()),
        opt!("log-span-events", "trippy", "Off", ("\"active\"", "Active"), ("full", "Full"), |c| format!("{:?}", c.log_span_events)),
        opt!("protocol", "strategy", "Icmp", ("\"udp\"", "Udp"), ("tcp", "Tcp"), |c| format!("{:?}", c.protocol)),
        opt!("addr-family", "strategy", "Ipv4thenIpv6", ("\"ipv6\"", "Ipv6Only"), ("ipv4", "Ipv4Only"), |c| format!("{:?}", c.addr_family)),
        opt!("target-port", "strategy", "None", ("5000", "Some(5000)"), ("6000", "Some(6000)"), |c| format!("{:?}", c.port_direction.dest().map(|p| p.0))),
        opt!("source-port", "strategy", "None", ("2000", "Some(2000)"), ("3000", "Some(3000)"), |c| format!("{:?}", c.port_direction.src().map(|p| p.0))),
        opt!("source-address", "strategy", "None", ("\"10.0.0.5\"", "Some(10.0.0.5)"), ("10.0.0.6", "Some(10.0.0.6)"), |c| format!("{:?}", c.source_addr)),
        opt!("interface", "strategy", "None", ("\"eth7\"", "Some(\"eth7\")"), ("wlan9", "Some(\"wlan9\")"), |c| format!("{:?}", c.interface)),
        opt!("min-round-duration", "strategy", "1s", ("\"500ms\"", "500ms"), ("600ms", "600ms"), |c| format!("{:?}", c.min_round_duration)),
        opt!("max-round-duration", "strategy", "1s", ("\"1100ms\"", "1.1s"), ("1200ms", "1.2s"), |c| format!("{:?}", c.max_round_duration)),
        opt!("initial-sequence", "strategy", "33434", ("40000", "40000"), ("50000", "50000"), |c| c.initial_sequence.to_string()),
        opt!("multipath-strategy", "strategy", "Classic", ("\"paris\"", "Paris"), ("dublin", "Dublin"), |c| format!("{:?}", c.multipath_strategy)),
        opt!("grace-duration", "strategy", "100ms", ("\"50ms\"", "50ms"), ("60ms", "60ms"), |c| format!("{:?}", c.grace_duration)),
        opt!("max-inflight", "strategy", "24", ("10", "10"), ("12", "12"), |c| c.max_inflight.to_string()),
        opt!("first-ttl", "strategy", "1", ("2", "2"), ("3", "3"), |c| c.first_ttl.to_string()),
        opt!("max-ttl", "strategy", "64", ("40", "40"), ("50", "50"), |c| c.max_ttl.to_string()),
        opt!("packet-size", "strategy", "84", ("100", "100"), ("120", "120"), |c| c.packet_size.to_string()),
        opt!("payload-pattern", "strategy", "0", ("7", "7"), ("9", "9"), |c| c.payload_pattern.to_string()),
        opt!("tos", "strategy", "0", ("8", "8"), ("16", "16"), |c| c.tos.to_string()),
        flag!("icmp-extensions", "strategy", |c| (format!("{:?}", c.icmp_extension_parse_mode) == "Enabled").to_string()),
        opt!("read-timeout", "strategy", "10ms", ("\"20ms\"", "20ms"), ("30ms", "30ms"), |c| format!("{:?}", c.read_timeout)),
        opt!("max-samples", "strategy", "256", ("100", "100"), ("200", "200"), |c| c.max_samples.to_string()),
        opt!("max-flows", "strategy", "64", ("10", "10"), ("20", "20"), |c| c.max_flows.to_string()),
        flag!("tui-preserve-screen", "tui", |c| c.tui_preserve_screen.to_string()),
        opt!("tui-refresh-rate", "tui", "100ms", ("\"200ms\"", "200ms"), ("300ms", "300ms"), |c| format!("{:?}", c.tui_refresh_rate)),
        opt!("tui-privacy-max-ttl", "tui", "None", ("1", "Some(1)"), ("2", "Some(2)"), |c| format!("{:?}", c.tui_privacy_max_ttl)),
        opt!("tui-address-mode", "tui", "Host", ("\"ip\"", "Ip"), ("both", "Both"), |c| format!("{:?}", c.tui_address_mode)),
        opt!("tui-as-mode", "tui", "Asn", ("\"prefix\"", "Prefix"), ("name", "Name"), |c| format!("{:?}", c.tui_as_mode)),
        opt!("tui-custom-columns", "tui", "holsravbwdt", ("\"hol\"", "hol"), ("hols", "hols"), |c| c.tui_custom_columns.0.iter().map(|x| format!("{x}")).collect::<String>()),
        opt!("tui-icmp-extension-mode", "tui", "Off", ("\"mpls\"", "Mpls"), ("full", "Full"), |c| format!("{:?}", c.tui_icmp_extension_mode)),
        opt!("tui-geoip-mode", "tui", "Off", ("\"short\"", "Short"), ("long", "Long"), |c| format!("{:?}", c.tui_geoip_mode)),
        opt!("geoip-mmdb-file", "tui", "None", ("\"/f.mmdb\"", "Some(\"/f.mmdb\")"), ("/c.mmdb", "Some(\"/c.mmdb\")"), |c| format!("{:?}", c.geoip_mmdb_file)),
        opt!("tui-max-addrs", "tui", "None", ("2", "Some(2)"), ("3", "Some(3)"), |c| format!("{:?}", c.tui_max_addrs)),
        opt!("tui-locale", "tui", "None", ("\"fr\"", "Some(\"fr\")"), ("de", "Some(\"de\")"), |c| format!("{:?}", c.tui_locale)),
        opt!("tui-timezone", "tui", "None", ("\"UTC\"", "Some(UTC)"), ("Europe/London", "Some(Europe/London)"), |c| format!("{:?}", c.tui_timezone)),
        opt!("dns-resolve-method", "dns", "System", ("\"google\"", "Google"), ("cloudflare", "Cloudflare"), |c| format!("{:?}", c.dns_resolve_method)),
        flag!("dns-resolve-all", "dns", |c| c.dns_resolve_all.to_string()),
        flag!("dns-lookup-as-info", "dns", |c| c.dns_lookup_as_info.to_string()),
        opt!("dns-timeout", "dns", "5s", ("\"1s\"", "1s"), ("2s", "2s"), |c| format!("{:?}", c.dns_timeout)),
        opt!("dns-ttl", "dns", "300s", ("\"100s\"", "100s"), ("200s", "200s"), |c| format!("{:?}", c.dns_ttl)),
        opt!("report-cycles", "report", "10", ("5", "5"), ("7", "7"), |c| c.report_cycles.to_string()),
    ]
}

macro_rules! theme_fields {
    ($($f:ident),* $(,)?) => {
        vec![$((stringify!($f), (|t: &trippy_tui::verif::TuiTheme| t.$f) as fn(&trippy_tui::verif::TuiTheme) -> TuiColor)),*]
    };
}
macro_rules! binding_fields {
    ($($f:ident),* $(,)?) => {
        vec![$((stringify!($f), (|t: &trippy_tui::verif::TuiBindings| t.$f) as fn(&trippy_tui::verif::TuiBindings) -> TuiKeyBinding)),*]
    };
}

#[allow(clippy::type_complexity)]
fn theme_items() -> Vec<(&'static str, fn(&trippy_tui::verif::TuiTheme) -> TuiColor)> {
    theme_fields!(
        bg, border, text, tab_text, hops_table_header_bg, hops_table_header_text, hops_table_row_active_text, hops_table_row_inactive_text,
        hops_chart_selected, hops_chart_unselected, hops_chart_axis, frequency_chart_bar, frequency_chart_text, flows_chart_bar_selected,
        flows_chart_bar_unselected, flows_chart_text_current, flows_chart_text_non_current, samples_chart, samples_chart_lost, help_dialog_bg,
        help_dialog_text, settings_dialog_bg, settings_tab_text, settings_table_header_text, settings_table_header_bg, settings_table_row_text,
        map_world, map_radius, map_selected, map_info_panel_border, map_info_panel_bg, map_info_panel_text, info_bar_bg, info_bar_text
    )
}

#[allow(clippy::type_complexity)]
fn binding_items() -> Vec<(&'static str, fn(&trippy_tui::verif::TuiBindings) -> TuiKeyBinding)> {
    binding_fields!(
        toggle_help, toggle_help_alt, toggle_settings, toggle_settings_tui, toggle_settings_trace, toggle_settings_dns, toggle_settings_geoip,
        toggle_settings_bindings, toggle_settings_theme, toggle_settings_columns, previous_hop, next_hop, previous_trace, next_trace,
        previous_hop_address, next_hop_address, address_mode_ip, address_mode_host, address_mode_both, toggle_freeze, toggle_chart, toggle_map,
        toggle_flows, expand_privacy, contract_privacy, expand_hosts, contract_hosts, expand_hosts_max, contract_hosts_min, chart_zoom_in,
        chart_zoom_out, clear_trace_data, clear_dns_cache, clear_selection, toggle_as_info, toggle_hop_details, quit, quit_preserve_screen
    )
}

#[derive(Clone, Debug, Serialize, Deserialize)]
pub struct LayerCase {
    /// source of each option of the table (by index)
    pub opts: Vec<Src>,
    /// source of each theme colour / key binding (Absent, File, Cli, Both only)
    pub theme: Vec<Src>,
    pub bindings: Vec<Src>,
    /// shortcut flags given on the command line: --udp / --tcp / --icmp / -4 / -6
    pub shortcuts: [bool; 5],
    pub pid: u16,
}

fn src_strat(flag: bool) -> BoxedStrategy<Src> {
    if flag {
        prop_oneof![
            4 => Just(Src::Absent),
            2 => Just(Src::File),
            2 => Just(Src::Cli),
            1 => Just(Src::Both),
            1 => Just(Src::FileFalse),
            1 => Just(Src::CliOverFileFalse),
        ]
        .boxed()
    } else {
        prop_oneof![4 => Just(Src::Absent), 2 => Just(Src::File), 2 => Just(Src::Cli), 2 => Just(Src::Both)].boxed()
    }
}

fn layer_strat() -> BoxedStrategy<LayerCase> {
    let opts = options();
    let per: Vec<BoxedStrategy<Src>> = opts.iter().map(|o| src_strat(o.kind == Kind::Flag)).collect();
    (
        per,
        proptest::collection::vec(src_strat(false), 34),
        proptest::collection::vec(src_strat(false), 38),
        proptest::array::uniform5(prop::bool::weighted(0.08)),
        any::<u16>(),
    )
        .prop_map(|(opts, theme, bindings, shortcuts, pid)| LayerCase { opts, theme, bindings, shortcuts, pid })
        .prop_flat_map(|c| (Just(c), prop::bool::weighted(0.85)))
        .prop_map(|(c, repair)| if repair { repair_case(c) } else { c })
        .boxed()
}

/// Steer most cases away from the documented cross-option rejections (and from clap's argument
/// conflicts) so that the precedence oracle gets enough accepted configurations; the rest stay
/// as generated and exercise the rejections.
fn repair_case(mut c: LayerCase) -> LayerCase {
    let opts = options();
    let eff = |c: &LayerCase, n: &str| predicted(&opts[idx(n)], c.opts[idx(n)]);
    let on_cli = |c: &LayerCase, n: &str| matches!(c.opts[idx(n)], Src::Cli | Src::Both | Src::CliOverFileFalse);
    // clap conflicts
    if on_cli(&c, "source-address") && on_cli(&c, "interface") {
        c.opts[idx("interface")] = Src::File;
    }
    if on_cli(&c, "protocol") {
        c.shortcuts[0] = false;
        c.shortcuts[1] = false;
        c.shortcuts[2] = false;
    }
    if c.shortcuts[0] {
        c.shortcuts[1] = false;
        c.shortcuts[2] = false;
    }
    if c.shortcuts[1] {
        c.shortcuts[2] = false;
    }
    if on_cli(&c, "addr-family") {
        c.shortcuts[3] = false;
        c.shortcuts[4] = false;
    }
    if c.shortcuts[3] {
        c.shortcuts[4] = false;
    }
    // documented cross-option rules
    if eff(&c, "multipath-strategy") != "Classic" {
        c.opts[idx("unprivileged")] = Src::Absent;
        c.opts[idx("protocol")] = Src::File;
        c.shortcuts[1] = false;
        c.shortcuts[2] = false;
    }
    c.opts[idx("dns-resolve-all")] = if c.pid % 2 == 0 { Src::Absent } else { Src::FileFalse };
    if eff(&c, "dns-lookup-as-info") == "true" && eff(&c, "dns-resolve-method") == "System" {
        c.opts[idx("dns-resolve-method")] = if c.pid % 3 == 0 { Src::File } else { Src::Cli };
    }
    if eff(&c, "tui-geoip-mode") != "Off" && eff(&c, "geoip-mmdb-file") == "None" {
        c.opts[idx("geoip-mmdb-file")] = Src::File;
    }
    if eff(&c, "source-port") != "None" && eff(&c, "target-port") != "None" {
        let udp_multi = eff(&c, "multipath-strategy") != "Classic";
        if !udp_multi {
            c.opts[idx("source-port")] = Src::Absent;
        }
    }
    c
}

/// The value the table predicts for an option.
fn predicted(o: &Opt, s: Src) -> &'static str {
    match (o.kind, s) {
        (_, Src::Absent) => o.default,
        (Kind::Value, Src::File) => o.file.1,
        (Kind::Value, Src::Cli | Src::Both) => o.cli.1,
        (Kind::Value, _) => o.default,
        (Kind::Flag, Src::File | Src::Cli | Src::Both | Src::CliOverFileFalse) => "true",
        (Kind::Flag, Src::FileFalse) => "false",
    }
}

fn kebab(s: &str) -> String {
    s.replace('_', "-")
}

/// Build argv and the TOML text for a case.
fn materialise(c: &LayerCase) -> (Vec<String>, String) {
    let opts = options();
    let mut argv: Vec<String> = vec!["trip".into(), "example.com".into()];
    let mut sections: BTreeMap<&str, Vec<String>> = BTreeMap::new();
    for (o, s) in opts.iter().zip(&c.opts) {
        let in_file = matches!(s, Src::File | Src::Both | Src::FileFalse | Src::CliOverFileFalse);
        let on_cli = matches!(s, Src::Cli | Src::Both | Src::CliOverFileFalse);
        if in_file {
            let lit = match (o.kind, s) {
                (Kind::Flag, Src::FileFalse | Src::CliOverFileFalse) => "false",
                _ => o.file.0,
            };
            sections.entry(o.section).or_default().push(format!("{} = {}", o.name, lit));
        }
        if on_cli {
            argv.push(format!("--{}", o.name));
            if o.kind == Kind::Value {
                argv.push(o.cli.0.to_string());
            }
        }
    }
    // theme colours: item i gets the file colour 10i0000 + ... and the CLI colour, all distinct
    let mut cli_colors = vec![];
    for (i, ((name, _), s)) in theme_items().iter().zip(&c.theme).enumerate() {
        let key = format!("{}-color", kebab(name));
        if matches!(s, Src::File | Src::Both) {
            sections.entry("theme-colors").or_default().push(format!("{key} = \"{}\"", file_color(i)));
        }
        if matches!(s, Src::Cli | Src::Both) {
            cli_colors.push(format!("{key}={}", cli_color(i)));
        }
    }
    if !cli_colors.is_empty() {
        argv.push("--tui-theme-colors".into());
        argv.push(cli_colors.join(","));
    }
    let mut cli_bind = vec![];
    for (i, ((name, _), s)) in binding_items().iter().zip(&c.bindings).enumerate() {
        let key = kebab(name);
        if matches!(s, Src::File | Src::Both) {
            sections.entry("bindings").or_default().push(format!("{key} = \"{}\"", file_key(i)));
        }
        if matches!(s, Src::Cli | Src::Both) {
            cli_bind.push(format!("{key}={}", cli_key(i)));
        }
    }
    if !cli_bind.is_empty() {
        argv.push("--tui-key-bindings".into());
        argv.push(cli_bind.join(","));
    }
    for (flag, on) in ["--udp", "--tcp", "--icmp", "-4", "-6"].iter().zip(c.shortcuts) {
        if on {
            argv.push((*flag).to_string());
        }
    }
    let mut toml = String::new();
    for (sec, lines) in sections {
        toml.push_str(&format!("[{sec}]\n{}\n", lines.join("\n")));
    }
    (argv, toml)
}

fn file_color(i: usize) -> String {
    format!("{:02x}10{:02x}", 0x20 + i, 0x80 + i)
}
fn cli_color(i: usize) -> String {
    format!("{:02x}c0{:02x}", 0x60 + i, 0x10 + i)
}
/// Key bindings are drawn without replacement: duplicates are rejected by validation.
fn file_key(i: usize) -> String {
    let ch = (b'a' + (i % 26) as u8) as char;
    format!("{}+{ch}", if i < 26 { "alt" } else { "alt+meta" })
}
fn cli_key(i: usize) -> String {
    let ch = (b'a' + (i % 26) as u8) as char;
    format!("{}+{ch}", if i < 26 { "super" } else { "super+hyper" })
}

fn idx(name: &str) -> usize {
    options().iter().position(|o| o.name == name).expect("option")
}

fn layer_test(c: &LayerCase, obs: &mut Obs) -> CheckResult {
    let opts = options();
    let (argv, toml_text) = materialise(c);
    // clap rejects --source-address together with --interface, and the protocol / family
    // shortcuts conflict among themselves: those are argument errors, not layering
    let args = match Args::try_parse_from(&argv) {
        Ok(a) => a,
        Err(e) => {
            let cli = |n: &str| matches!(c.opts[idx(n)], Src::Cli | Src::Both);
            let conflict = (cli("source-address") && cli("interface"))
                || c.shortcuts[..3].iter().filter(|b| **b).count() > 1
                || (c.shortcuts[3] && c.shortcuts[4])
                || (c.shortcuts[..3].iter().any(|b| *b) && cli("protocol"))
                || (c.shortcuts[3..].iter().any(|b| *b) && cli("addr-family"));
            vensure!(conflict, "cli-rejected", "clap rejected a valid command line {argv:?}: {}", e.to_string().lines().next().unwrap_or(""));
            obs.class("clap-conflict");
            return Ok(());
        }
    };
    let file: ConfigFile = match toml::from_str(&toml_text) {
        Ok(f) => f,
        Err(e) => vfail!("file-rejected", "a valid configuration file was rejected: {e}\n{toml_text}"),
    };
    let res = build_config(args, file, &Privilege::new(true, false), c.pid);
    // effective values per the table
    let eff = |n: &str| predicted(&opts[idx(n)], c.opts[idx(n)]);
    let protocol = if c.shortcuts[0] {
        "Udp"
    } else if c.shortcuts[1] {
        "Tcp"
    } else if c.shortcuts[2] {
        "Icmp"
    } else {
        eff("protocol")
    };
    let family = if c.shortcuts[3] {
        "Ipv4Only"
    } else if c.shortcuts[4] {
        "Ipv6Only"
    } else {
        eff("addr-family")
    };
    let strategy = eff("multipath-strategy");
    let mode = eff("mode");
    let (src_port, dst_port) = (eff("source-port"), eff("target-port"));
    // documented cross-option rules (rejections expected)
    let mut invalid: Vec<&str> = vec![];
    if strategy != "Classic" && eff("unprivileged") == "true" {
        invalid.push("paris/dublin in unprivileged mode");
    }
    if strategy != "Classic" && protocol != "Udp" {
        invalid.push("paris/dublin without udp");
    }
    if eff("dns-resolve-all") == "true" && (["Stream", "Pretty", "Markdown", "Csv", "Json"].contains(&mode) || protocol != "Icmp") {
        invalid.push("dns-resolve-all with a single-target mode or protocol");
    }
    if eff("dns-lookup-as-info") == "true" && eff("dns-resolve-method") == "System" {
        invalid.push("AS lookup with the system resolver");
    }
    if eff("tui-geoip-mode") != "Off" && eff("geoip-mmdb-file") == "None" {
        invalid.push("geoip mode without mmdb file");
    }
    if protocol != "Icmp" && src_port != "None" && dst_port != "None" && !(protocol == "Udp" && strategy != "Classic") {
        invalid.push("both ports fixed");
    }
    let cfg = match res {
        Ok(cfg) => {
            if !invalid.is_empty() {
                // accepted although a documented rule says otherwise: "accepted configs can
                // run" (the builder sub-check) is what the property asks of it
                obs.class("accepted-despite-rule");
            }
            cfg
        }
        Err(e) => {
            vensure!(
                !invalid.is_empty(),
                "valid-combination-rejected",
                "a valid combination was rejected: {e}\nargv {argv:?}\n{toml_text}"
            );
            obs.class("rejected-as-documented");
            obs.nontrivial(&("rejected", invalid));
            return Ok(());
        }
    };
    if !invalid.is_empty() {
        return Ok(());
    }
    // precedence, option by option
    for (o, s) in opts.iter().zip(&c.opts) {
        let mut want = predicted(o, *s).to_string();
        match o.name {
            "protocol" => want = protocol.to_string(),
            "addr-family" => want = family.to_string(),
            "target-port" | "source-port" => {
                // derived: ICMP has no ports; otherwise the given port(s), or the documented defaults
                let (sp, dp): (Option<u16>, Option<u16>) = match (protocol, src_port, dst_port) {
                    ("Icmp", _, _) => (None, None),
                    ("Udp", "None", "None") => (Some(c.pid.max(1024)), None),
                    ("Tcp", "None", "None") => (None, Some(80)),
                    (_, s, d) => (
                        s.strip_prefix("Some(").and_then(|x| x.strip_suffix(')')).and_then(|x| x.parse().ok()),
                        d.strip_prefix("Some(").and_then(|x| x.strip_suffix(')')).and_then(|x| x.parse().ok()),
                    ),
                };
                want = format!("{:?}", if o.name == "source-port" { sp } else { dp });
            }
            _ => {}
        }
        let got = (o.obs)(&cfg);
        vensure!(
            got == want,
            format!("precedence:{}", o.name),
            "option {} (source {:?}): effective value {got}, expected {want}\nargv {argv:?}\n{toml_text}",
            o.name,
            s
        );
    }
    // derived max-rounds
    let want_rounds = if mode == "Tui" || mode == "Stream" { "None".to_string() } else { format!("Some({})", eff("report-cycles")) };
    vensure!(format!("{:?}", cfg.max_rounds) == want_rounds, "derived:max-rounds", "mode {mode}: max_rounds {:?}, expected {want_rounds}", cfg.max_rounds);
    // theme colours and key bindings, item by item
    for (i, ((name, get), s)) in theme_items().iter().zip(&c.theme).enumerate() {
        let want = match s {
            Src::Absent => get(&trippy_tui::verif::TuiTheme::default()),
            Src::File => TuiColor::try_from(file_color(i).as_str()).expect("colour"),
            _ => TuiColor::try_from(cli_color(i).as_str()).expect("colour"),
        };
        let got = get(&cfg.tui_theme);
        vensure!(got == want, format!("precedence:theme:{name}"), "theme item {name} (source {s:?}): {got:?}, expected {want:?}");
    }
    for (i, ((name, get), s)) in binding_items().iter().zip(&c.bindings).enumerate() {
        let want = match s {
            Src::Absent => get(&trippy_tui::verif::TuiBindings::default()),
            Src::File => TuiKeyBinding::try_from(file_key(i).as_str()).expect("key"),
            _ => TuiKeyBinding::try_from(cli_key(i).as_str()).expect("key"),
        };
        let got = get(&cfg.tui_bindings);
        vensure!(got == want, format!("precedence:binding:{name}"), "key binding {name} (source {s:?}): {got:?}, expected {want:?}");
    }
    let n_file = c.opts.iter().filter(|s| matches!(s, Src::File | Src::FileFalse)).count();
    let n_cli = c.opts.iter().filter(|s| matches!(s, Src::Cli)).count();
    let n_both = c.opts.iter().filter(|s| matches!(s, Src::Both | Src::CliOverFileFalse)).count();
    obs.class("accepted");
    if n_file > 0 && n_cli > 0 && n_both > 0 {
        obs.class("nontrivial");
        obs.nontrivial(&(&c.opts, &c.theme, &c.bindings, c.shortcuts));
    }
    obs.sample(json!({"argv": argv.join(" "), "file": toml_text, "from_file": n_file, "from_cli": n_cli, "both": n_both}));
    Ok(())
}

// ---------------------------------------------------------------------------------------------
// (b) every configuration the builder (or the CLI layer + builder) accepts can run

#[derive(Clone, Debug, Serialize, Deserialize)]
pub struct BuildCase {
    pub cfg: TraceCfg,
    pub hops: u8,
    pub target_silent: bool,
}

fn boundary_u8() -> BoxedStrategy<u8> {
    prop_oneof![Just(0u8), Just(1), Just(2), Just(3), Just(24), Just(64), Just(253), Just(254), Just(255), any::<u8>()].boxed()
}

fn build_strat() -> BoxedStrategy<BuildCase> {
    (
        (
            any::<bool>(),
            prop_oneof![Just(Proto::Icmp), Just(Proto::Udp), Just(Proto::Tcp)],
            prop_oneof![Just(Strat::Classic), Just(Strat::Paris), Just(Strat::Dublin)],
            prop_oneof![Just(Ports::None), (0u16..=65535).prop_map(Ports::FixedSrc), (0u16..=65535).prop_map(Ports::FixedDest), (0u16..=65535, 0u16..=65535).prop_map(|(a, b)| Ports::FixedBoth(a, b))],
            any::<bool>(),
            any::<bool>(),
        ),
        (boundary_u8(), boundary_u8(), boundary_u8()),
        (
            prop_oneof![Just(0u16), Just(27), Just(28), Just(47), Just(48), Just(84), Just(1024), Just(1025), Just(65535), any::<u16>()],
            any::<u8>(),
            any::<u8>(),
            prop_oneof![Just(0u16), Just(33434), Just(64511), Just(64512), Just(65535), any::<u16>()],
            any::<u16>(),
        ),
        (0u64..=3, 0u64..=3, 0u64..=3, 0u64..=2, prop_oneof![Just(0usize), Just(1), Just(256)], prop_oneof![Just(0usize), Just(1), Just(64)]),
        0u8..=6,
        any::<bool>(),
    )
        .prop_map(|((v6, protocol, strategy, ports, privileged, ext_enabled), (first_ttl, max_ttl, max_inflight), (packet_size, pattern, tos, initial_sequence, trace_id), (minr, extra, grace, rt, max_samples, max_flows), hops, target_silent)| {
            let unit = 1_000_000u64;
            BuildCase {
                cfg: TraceCfg {
                    v6,
                    protocol,
                    strategy,
                    ports,
                    privileged,
                    ext_enabled,
                    first_ttl,
                    max_ttl,
                    max_inflight,
                    packet_size,
                    pattern,
                    tos,
                    min_round_ns: minr * unit,
                    max_round_ns: (minr + extra) * unit,
                    grace_ns: grace * unit,
                    read_timeout_ns: rt * unit / 2,
                    tcp_connect_timeout_ns: 2 * unit,
                    initial_sequence,
                    trace_id,
                    max_rounds: 3,
                    max_samples,
                    max_flows,
                    target_idx: 0,
                },
                hops,
                target_silent,
            }
        })
        .boxed()
}

fn build_test(c: &BuildCase, obs: &mut Obs) -> CheckResult {
    let mut world = WorldSpec::simple(usize::from(c.hops));
    for h in &mut world.paths[0].hops {
        h.delay_ns = 200_000;
    }
    world.target.node.delay_ns = 300_000;
    if c.target_silent {
        world.target.node.mode = RespMode::Silent;
    }
    let log = run_trace(&c.cfg, &world);
    if let Some(e) = &log.build_error {
        obs.class("builder-rejected");
        obs.nontrivial(&("rejected", e.split(|ch: char| ch.is_ascii_digit()).next().unwrap_or("").to_string()));
        return Ok(());
    }
    if let Some(p) = &log.panic {
        vfail!(
            format!("accepted-config-panics:{}", panic_sig(p)),
            "Builder::build accepted {:?}/{:?}/{:?} first-ttl {} max-ttl {} max-inflight {} but running it panicked: {p}",
            c.cfg.protocol,
            c.cfg.strategy,
            c.cfg.ports,
            c.cfg.first_ttl,
            c.cfg.max_ttl,
            c.cfg.max_inflight
        );
    }
    if let Some(a) = &log.aborted {
        vfail!("accepted-config-hangs", "Builder::build accepted the configuration but the run did not terminate: {a}");
    }
    // the limits given to the builder are the ones in effect in the recorded state - when the
    // tracer is built and after its data has been cleared (the TUI's clear-trace-data command)
    if let Ok(tracer) = c.cfg.build() {
        for stage in ["built", "cleared"] {
            let st = tracer.snapshot();
            vensure!(
                (st.max_samples(), st.max_flows(), tracer.max_samples(), tracer.max_flows()) == (c.cfg.max_samples, c.cfg.max_flows, c.cfg.max_samples, c.cfg.max_flows),
                "limits-not-in-effect",
                "tracer {stage}: max-samples / max-flows given to the builder {} / {}, in effect in the state {} / {}, reported by the tracer {} / {}",
                c.cfg.max_samples,
                c.cfg.max_flows,
                st.max_samples(),
                st.max_flows(),
                tracer.max_samples(),
                tracer.max_flows()
            );
            tracer.clear();
        }
    }
    obs.class(match &log.result {
        Some(Ok(())) => "ran",
        Some(Err(_)) => "ran-to-error-value",
        None => "no-result",
    });
    obs.nontrivial(&(c.cfg.cell(), c.cfg.first_ttl, c.cfg.max_ttl, c.cfg.max_inflight, c.cfg.packet_size, c.cfg.initial_sequence > 64511, c.hops));
    obs.sample(json!({"cfg": c.cfg.cell(), "first_ttl": c.cfg.first_ttl, "max_ttl": c.cfg.max_ttl, "max_inflight": c.cfg.max_inflight, "packet_size": c.cfg.packet_size, "result": format!("{:?}", log.result)}));
    Ok(())
}

/// Accepted configurations over a whole sequence-number cycle: every cell of the builder's
/// cross product (supported or not), from initial sequences below the wrap, for as many 254-probe
/// rounds as it takes to pass the wrap threshold.  Crash freedom only.
#[derive(Clone, Debug, Serialize, Deserialize)]
pub struct LongCase {
    pub cfg: TraceCfg,
    pub silent: bool,
}

fn long_cases(tier: Tier) -> Vec<LongCase> {
    let mut out = vec![];
    for v6 in [false, true] {
        for protocol in [Proto::Icmp, Proto::Udp, Proto::Tcp] {
            for strategy in [Strat::Classic, Strat::Paris, Strat::Dublin] {
                for ports in [Ports::None, Ports::FixedSrc(5000), Ports::FixedDest(33000), Ports::FixedBoth(5000, 33000)] {
                    for privileged in [true, false] {
                        let inits: &[(u16, u32)] = match tier {
                            // (initial sequence, rounds): 254 sequence numbers per round
                            // the last three are above the documented limit (64511): rejected today; if a
                            // cell ever accepts them it has to survive them
                            Tier::Quick => &[(0, 6), (62500, 14), (64511, 8), (64512, 8), (65000, 8), (65023, 8)],
                            Tier::Thorough => &[(0, 264), (1, 264), (33434, 130), (64257, 12), (64511, 12), (64512, 12), (64770, 12), (65000, 12), (65023, 12), (65535, 4)],
                        };
                        for &(init, rounds) in inits {
                            for silent in [false, true] {
                                if silent && (init == 0 || init > 64511) {
                                    continue;
                                }
                                out.push(LongCase {
                                    cfg: TraceCfg {
                                        v6,
                                        protocol,
                                        strategy,
                                        ports,
                                        privileged,
                                        ext_enabled: init % 2 == 0,
                                        initial_sequence: init,
                                        first_ttl: 1,
                                        max_ttl: 254,
                                        max_inflight: 255,
                                        max_rounds: rounds,
                                        read_timeout_ns: 1000,
                                        min_round_ns: 0,
                                        max_round_ns: 400_000,
                                        grace_ns: 0,
                                        tcp_connect_timeout_ns: 3000,
                                        packet_size: if v6 { 64 + (init % 300) } else { 40 + (init % 300) },
                                        ..TraceCfg::default()
                                    },
                                    silent,
                                });
                            }
                        }
                    }
                }
            }
        }
    }
    out
}

fn long_test(c: &LongCase, obs: &mut Obs) -> CheckResult {
    let mut world = super::c02::sweep_world();
    if c.silent {
        // nothing answers: max-inflight (255 here) lets every TTL go out in every round anyway
        for h in &mut world.paths[0].hops {
            h.mode = RespMode::Silent;
        }
        world.target.node.mode = RespMode::Silent;
    }
    let log = run_trace(&c.cfg, &world);
    if log.build_error.is_some() {
        obs.class("builder-rejected");
        return Ok(());
    }
    if let Some(p) = &log.panic {
        vfail!(
            format!("accepted-config-panics-later:{}", panic_sig(p)),
            "Builder::build accepted {} (initial sequence {}) but it panicked after {} published rounds / {} probes: {p}",
            c.cfg.cell(),
            c.cfg.initial_sequence,
            log.rounds.len(),
            log.sends.len()
        );
    }
    if let Some(a) = &log.aborted {
        vfail!("accepted-config-hangs", "Builder::build accepted {} but the run did not terminate: {a}", c.cfg.cell());
    }
    obs.extra_evals = log.sends.len() as u64;
    obs.class(format!("long:{}", if c.silent { "silent" } else { "answering" }));
    obs.class(match &log.result {
        Some(Ok(())) => "ran",
        Some(Err(_)) => "ran-to-error-value",
        None => "no-result",
    });
    obs.nontrivial(&(c.cfg.cell(), c.cfg.initial_sequence, c.silent, log.sends.len()));
    Ok(())
}

/// CLI-accepted configurations, through the mirrored `start_tracer` builder chain.
#[derive(Clone, Debug, Serialize, Deserialize)]
pub struct CliRunCase {
    pub argv: Vec<String>,
    pub hops: u8,
}

fn cli_run_strat() -> BoxedStrategy<CliRunCase> {
    let tok = |flag: &'static str, vals: Vec<&'static str>| {
        prop_oneof![3 => Just(vec![]), 2 => proptest::sample::select(vals).prop_map(move |v| vec![flag.to_string(), v.to_string()])].boxed()
    };
    let parts: Vec<BoxedStrategy<Vec<String>>> = vec![
        tok("--protocol", vec!["icmp", "udp", "tcp"]),
        tok("--multipath-strategy", vec!["classic", "paris", "dublin"]),
        tok("--first-ttl", vec!["1", "2", "30", "64", "254", "255", "0"]),
        tok("--max-ttl", vec!["1", "3", "30", "64", "254", "255", "0"]),
        tok("--max-inflight", vec!["1", "2", "24", "255", "0"]),
        tok("--packet-size", vec!["28", "48", "84", "1024", "1025", "27"]),
        tok("--initial-sequence", vec!["0", "33434", "64511", "64512", "65535"]),
        tok("--source-port", vec!["1024", "5000", "65535", "80"]),
        tok("--target-port", vec!["80", "33434", "0", "65535"]),
        tok("--addr-family", vec!["ipv4", "ipv6"]),
        tok("--min-round-duration", vec!["1ms", "5ms"]),
        tok("--max-round-duration", vec!["5ms", "8ms"]),
        tok("--grace-duration", vec!["10ms", "12ms"]),
        tok("--read-timeout", vec!["10ms", "11ms"]),
        tok("--max-samples", vec!["0", "1", "256"]),
        tok("--max-flows", vec!["0", "1", "64"]),
        tok("--tos", vec!["0", "255"]),
        prop_oneof![4 => Just(vec![]), 1 => Just(vec!["--unprivileged".to_string()])].boxed(),
        prop_oneof![4 => Just(vec![]), 1 => Just(vec!["--icmp-extensions".to_string()])].boxed(),
    ];
    (parts, 0u8..=5)
        .prop_map(|(parts, hops)| {
            let mut argv = vec!["trip".to_string(), "example.com".to_string()];
            for p in parts {
                argv.extend(p);
            }
            CliRunCase { argv, hops }
        })
        .boxed()
}

/// Mirror of `app.rs::start_tracer`: TrippyConfig -> Builder (through the harness TraceCfg).
fn trace_cfg_of(cfg: &TrippyConfig, pid: u16) -> TraceCfg {
    let v6 = format!("{:?}", cfg.addr_family) == "Ipv6Only";
    TraceCfg {
        v6,
        protocol: match format!("{:?}", cfg.protocol).as_str() {
            "Udp" => Proto::Udp,
            "Tcp" => Proto::Tcp,
            _ => Proto::Icmp,
        },
        strategy: match format!("{:?}", cfg.multipath_strategy).as_str() {
            "Paris" => Strat::Paris,
            "Dublin" => Strat::Dublin,
            _ => Strat::Classic,
        },
        ports: match (cfg.port_direction.src(), cfg.port_direction.dest()) {
            (None, None) => Ports::None,
            (Some(s), None) => Ports::FixedSrc(s.0),
            (None, Some(d)) => Ports::FixedDest(d.0),
            (Some(s), Some(d)) => Ports::FixedBoth(s.0, d.0),
        },
        privileged: format!("{:?}", cfg.privilege_mode) == "Privileged",
        ext_enabled: format!("{:?}", cfg.icmp_extension_parse_mode) == "Enabled",
        first_ttl: cfg.first_ttl,
        max_ttl: cfg.max_ttl,
        max_inflight: cfg.max_inflight,
        packet_size: cfg.packet_size,
        pattern: cfg.payload_pattern,
        tos: cfg.tos,
        min_round_ns: cfg.min_round_duration.as_nanos() as u64,
        max_round_ns: cfg.max_round_duration.as_nanos() as u64,
        grace_ns: cfg.grace_duration.as_nanos() as u64,
        read_timeout_ns: cfg.read_timeout.as_nanos() as u64,
        // start_tracer passes min_round_duration as the TCP connect timeout
        tcp_connect_timeout_ns: cfg.min_round_duration.as_nanos() as u64,
        initial_sequence: cfg.initial_sequence,
        trace_id: pid,
        max_rounds: 3,
        max_samples: cfg.max_samples,
        max_flows: cfg.max_flows(),
        target_idx: 0,
    }
}

fn cli_run_test(c: &CliRunCase, obs: &mut Obs) -> CheckResult {
    let Ok(args) = Args::try_parse_from(&c.argv) else {
        obs.class("clap-rejected");
        return Ok(());
    };
    let file: ConfigFile = toml::from_str("").expect("empty file");
    let cfg = match build_config(args, file, &Privilege::new(true, false), 4242) {
        Ok(cfg) => cfg,
        Err(_) => {
            obs.class("cli-rejected");
            return Ok(());
        }
    };
    let tc = trace_cfg_of(&cfg, 4242);
    let mut world = WorldSpec::simple(usize::from(c.hops));
    for h in &mut world.paths[0].hops {
        h.delay_ns = 200_000;
    }
    world.target.node.delay_ns = 300_000;
    let log = run_trace(&tc, &world);
    if log.build_error.is_some() {
        // rejected up front by the builder: a configuration error, not a crash
        obs.class("builder-rejected-after-cli");
        return Ok(());
    }
    if let Some(p) = &log.panic {
        vfail!(format!("cli-accepted-config-panics:{}", panic_sig(p)), "`{}` passed validation but running it panicked: {p}", c.argv.join(" "));
    }
    if let Some(a) = &log.aborted {
        vfail!("cli-accepted-config-hangs", "`{}` passed validation but the run did not terminate: {a}", c.argv.join(" "));
    }
    obs.class("ran");
    obs.nontrivial(&c.argv);
    obs.sample(json!({"argv": c.argv.join(" "), "result": format!("{:?}", log.result)}));
    Ok(())
}

#[allow(dead_code)]
fn _unused(_: SimCase) {}

// ---------------------------------------------------------------------------------------------
// values with a special meaning: `tui-max-addrs = 0` means "no maximum" (None).  The layering rule
// applies to the value as given (a CLI 0 overrides a file 3), the special meaning afterwards.

#[derive(Clone, Debug, Serialize, Deserialize)]
pub struct SentinelCase {
    pub file: Option<u8>,
    pub cli: Option<u8>,
}

fn sentinel_cases(_: Tier) -> Vec<SentinelCase> {
    let vals = [None, Some(0u8), Some(1), Some(3), Some(255)];
    let mut v = vec![];
    for f in vals {
        for c in vals {
            v.push(SentinelCase { file: f, cli: c });
        }
    }
    v
}

fn sentinel_test(c: &SentinelCase, obs: &mut Obs) -> CheckResult {
    let mut argv: Vec<String> = vec!["trip".into(), "example.com".into()];
    if let Some(n) = c.cli {
        argv.push("--tui-max-addrs".into());
        argv.push(n.to_string());
    }
    let toml_text = c.file.map_or(String::new(), |n| format!("[tui]\ntui-max-addrs = {n}\n"));
    let args = Args::try_parse_from(&argv).map_err(|e| Fail::new("sentinel:cli-rejected", e.to_string()))?;
    let file: ConfigFile = toml::from_str(&toml_text).map_err(|e| Fail::new("sentinel:file-rejected", e.to_string()))?;
    let cfg = build_config(args, file, &Privilege::new(true, false), 1).map_err(|e| Fail::new("sentinel:rejected", format!("{e}")))?;
    let want = c.cli.or(c.file).filter(|n| *n > 0);
    vensure!(cfg.tui_max_addrs == want, "precedence:tui-max-addrs:sentinel", "file {:?}, command line {:?}: tui_max_addrs = {:?}, expected {want:?}", c.file, c.cli, cfg.tui_max_addrs);
    obs.nontrivial(&(c.file, c.cli));
    Ok(())
}

pub fn check() -> PropertyCheck {
    PropertyCheck {
        id: "C16",
        level: "exploration",
        rule: "layering: every one of 45 options (plus 34 theme colours and 38 key bindings, each an option of its own with a value distinct from every other item's; bindings drawn without replacement) is independently absent / in the file / on the command line / in both (boolean flags additionally: file says false, with or without the CLI flag), plus the --udp/--tcp/--icmp/-4/-6 shortcuts; argv goes through clap, the TOML text through serde, both through the real build_config; oracle = a table (flag, section.key, documented default, two further valid values, accessor) with derived values (protocol shortcuts, ports -> port direction, mode -> max-rounds) and six documented cross-option rejections modelled; non-trivial = at least one option from each of file / CLI / both; distinct by the whole source assignment. builder: cross product of builder parameters (boundaries 0, 1, 254, 255, sizes 27/28/47/48/1024/1025, sequences 64511/64512 ...) -> Builder::build; every accepted tracer runs 3 rounds over the simulated socket: error values are fine, panics and hangs are violations. cli-run: command lines of boundary values -> clap -> build_config -> mirrored start_tracer chain -> 3 simulated rounds",
        assumptions: vec![
            "app.rs::start_tracer's builder chain is mirrored (TrippyConfig -> Builder), incl. tcp-connect-timeout = min-round-duration",
            "a combination a documented rule rejects but build_config accepts is not itself flagged; that it can run is checked by the builder / cli-run sub-checks",
        ],
        subs: vec![
            Box::new(Pbt { name: "layering", quick: 150_000, thorough: 2_000_000, strat: layer_strat, test: layer_test, max_shrink: 4000 }),
            Box::new(Pbt { name: "builder", quick: 60_000, thorough: 5_000_000, strat: build_strat, test: build_test, max_shrink: 3000 }),
            Box::new(Enumerated {
                name: "builder-long",
                exhaustive_note: Some("every cell of protocol x family x strategy x port direction x privilege, accepted or not, run through a whole sequence-number cycle (wrap included) against an answering and a silent 254-hop path"),
                cases: long_cases,
                test: long_test,
            }),
            Box::new(Enumerated { name: "special-values", exhaustive_note: Some("tui-max-addrs: file x command line over {absent, 0, 1, 3, 255}"), cases: sentinel_cases, test: sentinel_test }),
            Box::new(Pbt { name: "cli-run", quick: 60_000, thorough: 2_000_000, strat: cli_run_strat, test: cli_run_test, max_shrink: 3000 }),
        ],
    }
}
