//! C17 The terminal UI never crashes, whatever the trace, keys or window size.

use super::c05::{syn_probe, HistOpts, SynRound};
use crate::engine::*;
use crate::simnet::{Ports, Proto, Strat, TraceCfg};
use crate::tui::{self, Cmd, Op, TraceSetup, TuiCase, UiSetup, ALL_CMDS};
use proptest::prelude::*;
use proptest::strategy::BoxedStrategy;
use serde_json::json;

pub fn syn_round() -> BoxedStrategy<SynRound> {
    let o = HistOpts { hosts_per_hop: tui::FIXTURE_HOSTS, ..HistOpts::default() };
    (proptest::collection::vec(syn_probe(&o), 0..=12), any::<u16>()).prop_map(|(probes, largest_sel)| SynRound { probes, largest_sel }).boxed()
}

pub fn trace_setup() -> BoxedStrategy<TraceSetup> {
    (
        prop_oneof![2 => Just((Proto::Icmp, Strat::Classic, Ports::None)), 2 => Just((Proto::Udp, Strat::Dublin, Ports::FixedSrc(5000))), 1 => Just((Proto::Udp, Strat::Paris, Ports::FixedDest(33000))), 1 => Just((Proto::Tcp, Strat::Classic, Ports::FixedDest(80)))],
        prop_oneof![3 => Just(1u8), 1 => 1u8..=6],
        prop_oneof![Just(1usize), Just(2), Just(64)],
        prop_oneof![Just(0usize), Just(1), Just(5), Just(256)],
        prop_oneof![3 => Just(0u8), 1 => 1u8..=2],
        prop::bool::weighted(0.1),
    )
        .prop_map(|((protocol, strategy, ports), first_ttl, max_flows, max_samples, sim_rounds, fatal)| TraceSetup {
            cfg: TraceCfg {
                protocol,
                strategy,
                ports,
                first_ttl,
                max_ttl: 30,
                max_flows,
                max_samples,
                min_round_ns: 1_000_000,
                max_round_ns: 2_000_000,
                grace_ns: 100_000,
                read_timeout_ns: 200_000,
                ..TraceCfg::default()
            },
            sim_rounds,
            fatal,
        })
        .boxed()
}

pub fn ui_setup(large: bool) -> BoxedStrategy<UiSetup> {
    (
        (0u8..3, 0u8..6, 0u8..4, 0u8..4),
        prop_oneof![2 => Just(None), 1 => (0u8..=14).prop_map(Some)],
        prop_oneof![2 => Just(None), 1 => (1u8..=4).prop_map(Some)],
        prop_oneof![3 => Just("holsravbwdt".to_string()), 1 => Just("hol".to_string()), 1 => Just("holsravbwdtj".to_string()), 1 => Just("hoSPQTCNfFBD".to_string()), 1 => Just("ho".to_string()), 1 => Just("lsr".to_string())],
        any::<bool>(),
        if large { (200u16..=300, 80u16..=100).boxed() } else { prop_oneof![2 => (1u16..=300, 1u16..=100), 1 => (1u16..=20, 1u16..=12), 1 => (80u16..=200, 24u16..=60)].boxed() },
    )
        .prop_map(|((address_mode, as_mode, geoip_mode, icmp_ext_mode), privacy, max_addrs, columns, as_info, (width, height))| UiSetup {
            address_mode,
            as_mode,
            geoip_mode,
            icmp_ext_mode,
            privacy,
            max_addrs,
            columns,
            as_info,
            width,
            height,
        })
        .boxed()
}

pub fn op_strat(resize: bool) -> BoxedStrategy<Op> {
    let key = proptest::sample::select(ALL_CMDS.to_vec());
    prop_oneof![
        6 => key.prop_map(Op::Key),
        3 => (0u8..3, proptest::collection::vec(syn_round(), 1..=4)).prop_map(|(trace, rounds)| Op::Rounds { trace, rounds }),
        1 => (0u8..3).prop_map(|trace| Op::ClearTrace { trace }),
        if resize { 1 } else { 0 } => (1u16..=300, 1u16..=100).prop_map(|(w, h)| Op::Resize(w, h)),
    ]
    .boxed()
}

/// Navigation-heavy sequences on one trace with many flows of different lengths: selection,
/// freezing, flow and address navigation, details, clearing - the commands whose effect depends
/// on what the (frozen or live) snapshot holds.
fn nav_op_strat() -> BoxedStrategy<Op> {
    let nav = proptest::sample::select(vec![
        Cmd::NextHop,
        Cmd::PreviousHop,
        Cmd::NextTrace,
        Cmd::PreviousTrace,
        Cmd::NextHopAddress,
        Cmd::PreviousHopAddress,
        Cmd::ToggleFreeze,
        Cmd::ToggleFlows,
        Cmd::ToggleHopDetails,
        Cmd::ToggleChart,
        Cmd::ClearSelection,
        Cmd::ClearTraceData,
        Cmd::ExpandPrivacy,
        Cmd::ContractPrivacy,
        Cmd::ExpandHostsMax,
        Cmd::ContractHostsMin,
    ]);
    let any_key = proptest::sample::select(ALL_CMDS.to_vec());
    prop_oneof![
        8 => nav.prop_map(Op::Key),
        2 => any_key.prop_map(Op::Key),
        4 => proptest::collection::vec(syn_round(), 1..=3).prop_map(|rounds| Op::Rounds { trace: 0, rounds }),
        1 => Just(Op::ClearTrace { trace: 0 }),
    ]
    .boxed()
}

fn nav_strat() -> BoxedStrategy<TuiCase> {
    (trace_setup(), ui_setup(false), proptest::collection::vec(nav_op_strat(), 0..=40), prop_oneof![Just(2usize), Just(8), Just(64)])
        .prop_map(|(mut t, ui, ops, max_flows)| {
            t.cfg.max_flows = max_flows;
            TuiCase { traces: vec![t], ui, ops, hash_keys: None }
        })
        .boxed()
}

/// Settings-dialog sequences: tabs, long runs of item navigation (the columns tab has 27 items,
/// the bindings and theme tabs more), column visibility and reordering at every position.
fn settings_strat() -> BoxedStrategy<TuiCase> {
    let rep = |c: Cmd, max: usize| (1..=max).prop_map(move |n| vec![Op::Key(c); n]);
    let group = prop_oneof![
        3 => prop_oneof![3 => Just(6u8), 1 => 0u8..=6].prop_map(|t| vec![Op::Key(Cmd::ToggleSettingsTab(t))]),
        4 => rep(Cmd::NextHop, 30),
        2 => rep(Cmd::PreviousHop, 30),
        3 => rep(Cmd::NextHopAddress, 4),
        3 => rep(Cmd::PreviousHopAddress, 4),
        2 => rep(Cmd::ToggleChart, 2),
        1 => prop_oneof![Just(Cmd::NextTrace), Just(Cmd::PreviousTrace)].prop_map(|c| vec![Op::Key(c)]),
        1 => proptest::sample::select(ALL_CMDS.to_vec()).prop_map(|c| vec![Op::Key(c)]),
        1 => proptest::collection::vec(syn_round(), 1..=2).prop_map(|rounds| vec![Op::Rounds { trace: 0, rounds }]),
    ];
    (trace_setup(), ui_setup(false), proptest::collection::vec(group, 1..=14))
        .prop_map(|(t, ui, groups)| TuiCase { traces: vec![t], ui, ops: groups.into_iter().flatten().collect(), hash_keys: None })
        .boxed()
}

fn strat() -> BoxedStrategy<TuiCase> {
    (proptest::collection::vec(trace_setup(), 1..=3), ui_setup(false), proptest::collection::vec(op_strat(true), 0..=40))
        .prop_map(|(traces, ui, ops)| TuiCase { traces, ui, ops, hash_keys: None })
        .boxed()
}

pub fn test(c: &TuiCase, obs: &mut Obs) -> CheckResult {
    match c.hash_keys {
        // a stored demonstration: fresh thread, fixed hash seeds.  Process-wide lazily built
        // tables (translations, clap commands, ...) create maps on the thread that first needs
        // them, so one unkeyed run comes first and the keyed run sees a warm process.
        Some(k) if !crate::hrand::is_overridden() => {
            static WARM: std::sync::atomic::AtomicBool = std::sync::atomic::AtomicBool::new(false);
            if !WARM.swap(true, std::sync::atomic::Ordering::SeqCst) {
                let _ = std::thread::scope(|s| s.spawn(|| test_inner(c, &mut Obs::default())).join());
            }
            crate::hrand::with_hash_keys(k, || test_inner(c, obs))
        }
        _ => test_inner(c, obs),
    }
}

fn test_inner(c: &TuiCase, obs: &mut Obs) -> CheckResult {
    if std::env::var("VERIF_NO_WATCH").is_err() {
        WATCH_S.store(std::env::var("VERIF_WATCH_S").ok().and_then(|v| v.parse().ok()).unwrap_or(90), std::sync::atomic::Ordering::Relaxed);
    }
    let mut s = tui::start(c)?;
    s.refresh_and_draw()?;
    s.check_selection()?;
    let mut modes = std::collections::BTreeSet::new();
    for (i, op) in c.ops.iter().enumerate() {
        if let Err(f) = s.apply(op) {
            return Err(Fail::new(f.sig, format!("step {i} ({op:?}): {}", f.msg)));
        }
        if std::env::var("VERIF_PROGRESS").is_ok() {
            let area = s.terminal.backend().buffer().area;
            note_progress(format!(
                "step {i} {op:?} done; drawing {}x{} columns={} settings={} help={} chart={} map={} flows={} details={} hops={} case={}",
                area.width, area.height,
                s.app.tui_config.tui_columns.columns().count(), s.app.show_settings, s.app.show_help, s.app.show_chart, s.app.show_map, s.app.show_flows, s.app.show_hop_details,
                s.app.tracer_data().hops_for_flow(s.app.selected_flow).len(),
                engine_hash(c)
            ));
        }
        s.refresh_and_draw().map_err(|f| Fail::new(f.sig, format!("after step {i} ({op:?}): {}", f.msg)))?;
        s.check_selection().map_err(|f| Fail::new(f.sig, format!("after step {i} ({op:?}): {}", f.msg)))?;
        let a = &s.app;
        if a.show_help {
            modes.insert("help");
        }
        if a.show_settings {
            modes.insert("settings");
        }
        if a.show_flows {
            modes.insert("flows");
        }
        if a.show_chart {
            modes.insert("chart");
        }
        if a.show_map {
            modes.insert("map");
        }
        if a.show_hop_details {
            modes.insert("details");
        }
        if a.frozen_start.is_some() {
            modes.insert("frozen");
        }
        if a.table_state.selected().is_some() {
            modes.insert("hop-selected");
        }
    }
    for m in &modes {
        obs.class(format!("mode:{m}"));
    }
    obs.class(format!("traces:{}", c.traces.len()));
    let keys = c.ops.iter().filter(|o| matches!(o, Op::Key(_))).count();
    let updates = c.ops.iter().filter(|o| matches!(o, Op::Rounds { .. } | Op::ClearTrace { .. })).count();
    if keys >= 3 && updates >= 1 {
        obs.class("nontrivial");
        obs.nontrivial(&serde_json::to_string(&c.ops).unwrap_or_default());
    }
    obs.extra_evals = c.ops.len() as u64;
    obs.sample(json!({"traces": c.traces.len(), "size": [c.ui.width, c.ui.height], "ops": c.ops.iter().take(12).map(|o| match o { Op::Key(k) => format!("{k:?}"), Op::Rounds { trace, rounds } => format!("rounds(trace {trace}, {})", rounds.len()), Op::ClearTrace { trace } => format!("clear({trace})"), Op::Resize(w, h) => format!("resize({w}x{h})") }).collect::<Vec<_>>(), "modes_reached": modes}));
    Ok(())
}

fn engine_hash(c: &TuiCase) -> String {
    format!("{:016x}", hash64(&serde_json::to_string(c).unwrap_or_default()))
}

#[allow(dead_code)]
fn _cmd(_: Cmd) {}

/// Signature of the recorded finding: ratatui's layout solver cycles on the hop table (the
/// capped solver of `vendor/cassowary` turns the endless loop into this panic).
pub const LAYOUT_HANG_SIG: &str = "draw:panic:layout solver cycling under render::table@ratatui-0.29.0/src/layout/layout.rs:657";

/// The demonstration input of the recorded finding: the default columns plus jitter (twelve, as in the stuck cases the
/// search met), one trace with a few hops, a handful of terminal sizes; `keys` fixes the hash
/// seeds (found with `vcheck --find-layout-demo`).
pub fn layout_demo_case(keys: u64) -> TuiCase {
    let mut ops = vec![Op::Rounds {
        trace: 0,
        rounds: vec![SynRound {
            probes: vec![super::c05::SynProbe::Complete { host: 0, rtt_ns: 1_000_000, negative: false, code: 0, kind: 0, tos: None, ext: None, cks: None }; 4],
            largest_sel: 65535,
        }],
    }];
    for i in 0..24u16 {
        ops.push(Op::Resize(60 + (i * 7) % 120, 30 + i % 5));
    }
    TuiCase {
        traces: vec![TraceSetup { cfg: TraceCfg { max_ttl: 30, ..TraceCfg::default() }, sim_rounds: 0, fatal: false }],
        ui: UiSetup { address_mode: 0, as_mode: 0, geoip_mode: 0, icmp_ext_mode: 0, privacy: None, max_addrs: None, columns: std::env::var("VERIF_DEMO_COLUMNS").unwrap_or_else(|_| "holsravbwdtj".to_string()), as_info: false, width: 100, height: 30 },
        ops,
        hash_keys: Some(keys),
    }
}

/// Search hash seeds for which the demonstration input makes the solver cycle.
pub fn find_layout_demo(from: u64, count: u64) -> Vec<u64> {
    let next = std::sync::atomic::AtomicU64::new(from);
    let found = std::sync::Mutex::new(vec![]);
    std::thread::scope(|s| {
        for _ in 0..16 {
            s.spawn(|| loop {
                let k = next.fetch_add(1, std::sync::atomic::Ordering::Relaxed);
                if k >= from + count || found.lock().unwrap().len() >= 3 {
                    break;
                }
                let c = layout_demo_case(k);
                if let Err(f) = test(&c, &mut Obs::default()) {
                    if f.sig == LAYOUT_HANG_SIG {
                        found.lock().unwrap().push(k);
                    } else {
                        eprintln!("keys {k}: unexpected failure {}: {}", f.sig, f.msg);
                    }
                }
            });
        }
    });
    let mut v = found.into_inner().unwrap();
    v.sort_unstable();
    v
}

/// Keeps the recorded finding demonstrable when the build changes: the stored demonstration
/// (`regress/C17/known-table-layout-solver-cycling.json`) fixes the hash seeds, but which seeds
/// make the solver cycle depends on how many maps the code creates before the frame is laid out.
/// If the stored one no longer reproduces, a bounded search over seeds looks for another.
pub struct LayoutDemoSearch;

impl SubCheck for LayoutDemoSearch {
    fn name(&self) -> &str {
        "layout-solver-demo"
    }
    fn run(&self, ctx: &Ctx, rep: &Report) {
        let Some(k) = is_known_open(ctx, LAYOUT_HANG_SIG) else { return };
        let line = format!("KNOWN-FINDING: property={} {} [{}]", ctx.prop, k.what, k.sig);
        if rep.inner.lock().unwrap().known_hits.contains(&line) {
            rep.sub_summary(json!({"sub": "layout-solver-demo", "stored_demonstration_reproduced": true}));
            return;
        }
        let t0 = std::time::Instant::now();
        let found = find_layout_demo(1000, 6000);
        rep.inner.lock().unwrap().evaluations += 1;
        if let Some(key) = found.first() {
            let mut r = rep.inner.lock().unwrap();
            r.known_hits.push(line);
            r.notes.push(format!("layout-solver-demo: the stored demonstration did not reproduce with this build; hash seeds {key} do (search took {:?}); refresh it with `vcheck --find-layout-demo {key} 1 regress/C17/known-table-layout-solver-cycling.json`", t0.elapsed()));
        } else {
            rep.note(format!("layout-solver-demo: neither the stored demonstration nor 6000 other hash seeds made the layout solver cycle ({:?})", t0.elapsed()));
        }
        rep.sub_summary(json!({"sub": "layout-solver-demo", "stored_demonstration_reproduced": false, "seeds_found": found, "wall_s": t0.elapsed().as_secs_f64()}));
    }
    fn replay(&self, _case: &serde_json::Value) -> CheckResult {
        Ok(())
    }
}

pub fn check() -> PropertyCheck {
    PropertyCheck {
        id: "C17",
        level: "exploration",
        rule: "each case = 1..3 real Tracers (ICMP / UDP Dublin / UDP Paris / TCP, max-flows 1/2/64, sample limits 0..256, first-ttl 1..6, optionally warmed up by a short simulated run that sets the source address or a fatal error) behind a real TuiApp built through argv -> build_config -> make_tui_config (address / AS / GeoIP / extension modes, privacy, max-addrs, 5 column sets, terminal 1x1..300x100), driven by up to 40 operations: any of the 36 bindable commands (dispatched as run_app does, per help / settings / normal mode), 1..4 synthetic rounds applied to a trace (growing / shrinking paths, new flows, silent hops), clearing a trace, resizing; after every operation one loop iteration (snapshot, clamp, order flows, draw on a TestBackend) runs under catch_unwind and the selected hop / hop address / flow / trace / settings tab must exist in the displayed data. evaluations count operations; non-trivial = >= 3 commands and >= 1 trace update; distinct by the operation sequence",
        assumptions: vec![
            "frontend.rs::run_app is parsed from its source and interpreted (tui_loop.rs): refresh, draw and per-mode key dispatch follow the file; commands are injected at the binding level (crossterm key decoding not exercised); quit commands are excluded",
            "DNS names, AS and GeoIP text come from seeded fixtures (verif_seed, a generated MaxMind DB); no lookups leave the process",
        ],
        subs: vec![
            Box::new(Pbt { name: "ui-ops", quick: 6_000, thorough: 600_000, strat, test, max_shrink: 3000 }),
            Box::new(Pbt { name: "ui-nav", quick: 6_000, thorough: 600_000, strat: nav_strat, test, max_shrink: 3000 }),
            Box::new(Pbt { name: "ui-settings", quick: 3_000, thorough: 200_000, strat: settings_strat, test, max_shrink: 3000 }),
            Box::new(LayoutDemoSearch),
        ],
    }
}
