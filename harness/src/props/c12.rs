//! C12 Packet field accessors are exact, independent and RFC-positioned.

use crate::engine::*;
use crate::{vensure, vfail};
use proptest::prelude::*;
use proptest::strategy::BoxedStrategy;
use serde::{Deserialize, Serialize};
use serde_json::json;
use std::net::{Ipv4Addr, Ipv6Addr};
use trippy_packet::icmp_extension::extension_header::ExtensionHeaderPacket;
use trippy_packet::icmp_extension::extension_object::{ClassNum, ClassSubType, ExtensionObjectPacket};
use trippy_packet::icmp_extension::extension_structure::ExtensionsPacket;
use trippy_packet::icmp_extension::mpls_label_stack::MplsLabelStackPacket;
use trippy_packet::icmp_extension::mpls_label_stack_member::MplsLabelStackMemberPacket;
use trippy_packet::ipv4::Ipv4Packet;
use trippy_packet::ipv6::Ipv6Packet;
use trippy_packet::tcp::TcpPacket;
use trippy_packet::udp::UdpPacket;
use trippy_packet::{icmpv4, icmpv6, IpProtocol};

/// One header field: where the governing RFC puts it and how trippy reads / writes it.
pub struct Field {
    pub pkt: &'static str,
    pub name: &'static str,
    /// bit offset from the start of the header (network bit order), per the RFC named in `rfc`
    pub off: usize,
    pub width: usize,
    /// width of the setter's argument type
    pub arg_bits: usize,
    pub min: usize,
    pub rfc: &'static str,
    /// construct a mutable packet over `buf`, call the setter with `v`, return (bytes, getter result)
    pub set: fn(&mut [u8], u128) -> (Vec<u8>, u128),
    /// getter through a read-only view
    pub get: fn(&[u8]) -> u128,
}

macro_rules! fld {
    ($P:ty, $pn:expr, $name:expr, $off:expr, $w:expr, $ab:expr, $rfc:expr, |$p:ident, $v:ident| $set:expr, |$q:ident| $get:expr) => {
        Field {
            pkt: $pn,
            name: $name,
            off: $off,
            width: $w,
            arg_bits: $ab,
            min: <$P>::minimum_packet_size(),
            rfc: $rfc,
            set: |buf, $v| {
                let mut $p = <$P>::new(buf).expect("new");
                $set;
                let got = {
                    let $q = &$p;
                    ($get) as u128
                };
                ($p.packet().to_vec(), got)
            },
            get: |buf| {
                let $q = &<$P>::new_view(buf).expect("new_view");
                ($get) as u128
            },
        }
    };
}

fn v4a(v: u128) -> Ipv4Addr {
    Ipv4Addr::from((v as u32).to_be_bytes())
}
fn v6a(v: u128) -> Ipv6Addr {
    Ipv6Addr::from(v.to_be_bytes())
}

macro_rules! icmp_common {
    ($v:ident, $mod:ident, $P:ty, $pn:expr, $rfc:expr) => {
        $v.push(fld!($P, $pn, "icmp_type", 0, 8, 8, $rfc, |p, x| p.set_icmp_type($mod::IcmpType::from(x as u8)), |q| q.get_icmp_type().id()));
        $v.push(fld!($P, $pn, "icmp_code", 8, 8, 8, $rfc, |p, x| p.set_icmp_code($mod::IcmpCode(x as u8)), |q| q.get_icmp_code().0));
        $v.push(fld!($P, $pn, "checksum", 16, 16, 16, $rfc, |p, x| p.set_checksum(x as u16), |q| q.get_checksum()));
    };
}

macro_rules! icmp_echo {
    ($v:ident, $mod:ident, $P:ty, $pn:expr, $rfc:expr) => {
        icmp_common!($v, $mod, $P, $pn, $rfc);
        $v.push(fld!($P, $pn, "identifier", 32, 16, 16, $rfc, |p, x| p.set_identifier(x as u16), |q| q.get_identifier()));
        $v.push(fld!($P, $pn, "sequence", 48, 16, 16, $rfc, |p, x| p.set_sequence(x as u16), |q| q.get_sequence()));
    };
}

pub fn fields() -> Vec<Field> {
    let mut v: Vec<Field> = vec![];
    // ---- IPv4, RFC 791 section 3.1 (DSCP/ECN: RFC 2474 / 3168)
    v.push(fld!(Ipv4Packet<'_>, "ipv4", "version", 0, 4, 8, "RFC 791", |p, x| p.set_version(x as u8), |q| q.get_version()));
    v.push(fld!(Ipv4Packet<'_>, "ipv4", "header_length", 4, 4, 8, "RFC 791", |p, x| p.set_header_length(x as u8), |q| q.get_header_length()));
    v.push(fld!(Ipv4Packet<'_>, "ipv4", "dscp", 8, 6, 8, "RFC 2474", |p, x| p.set_dscp(x as u8), |q| q.get_dscp()));
    v.push(fld!(Ipv4Packet<'_>, "ipv4", "ecn", 14, 2, 8, "RFC 3168", |p, x| p.set_ecn(x as u8), |q| q.get_ecn()));
    v.push(fld!(Ipv4Packet<'_>, "ipv4", "tos", 8, 8, 8, "RFC 791", |p, x| p.set_tos(x as u8), |q| q.get_tos()));
    v.push(fld!(Ipv4Packet<'_>, "ipv4", "total_length", 16, 16, 16, "RFC 791", |p, x| p.set_total_length(x as u16), |q| q.get_total_length()));
    v.push(fld!(Ipv4Packet<'_>, "ipv4", "identification", 32, 16, 16, "RFC 791", |p, x| p.set_identification(x as u16), |q| q.get_identification()));
    v.push(fld!(Ipv4Packet<'_>, "ipv4", "flags_and_fragment_offset", 48, 16, 16, "RFC 791", |p, x| p.set_flags_and_fragment_offset(x as u16), |q| q.get_flags_and_fragment_offset()));
    v.push(fld!(Ipv4Packet<'_>, "ipv4", "ttl", 64, 8, 8, "RFC 791", |p, x| p.set_ttl(x as u8), |q| q.get_ttl()));
    v.push(fld!(Ipv4Packet<'_>, "ipv4", "protocol", 72, 8, 8, "RFC 791", |p, x| p.set_protocol(IpProtocol::from(x as u8)), |q| q.get_protocol().id()));
    v.push(fld!(Ipv4Packet<'_>, "ipv4", "checksum", 80, 16, 16, "RFC 791", |p, x| p.set_checksum(x as u16), |q| q.get_checksum()));
    v.push(fld!(Ipv4Packet<'_>, "ipv4", "source", 96, 32, 32, "RFC 791", |p, x| p.set_source(v4a(x)), |q| u32::from_be_bytes(q.get_source().octets())));
    v.push(fld!(Ipv4Packet<'_>, "ipv4", "destination", 128, 32, 32, "RFC 791", |p, x| p.set_destination(v4a(x)), |q| u32::from_be_bytes(q.get_destination().octets())));
    // ---- IPv6, RFC 8200 section 3
    v.push(fld!(Ipv6Packet<'_>, "ipv6", "version", 0, 4, 8, "RFC 8200", |p, x| p.set_version(x as u8), |q| q.get_version()));
    v.push(fld!(Ipv6Packet<'_>, "ipv6", "traffic_class", 4, 8, 8, "RFC 8200", |p, x| p.set_traffic_class(x as u8), |q| q.get_traffic_class()));
    v.push(fld!(Ipv6Packet<'_>, "ipv6", "flow_label", 12, 20, 32, "RFC 8200", |p, x| p.set_flow_label(x as u32), |q| q.get_flow_label()));
    v.push(fld!(Ipv6Packet<'_>, "ipv6", "payload_length", 32, 16, 16, "RFC 8200", |p, x| p.set_payload_length(x as u16), |q| q.get_payload_length()));
    v.push(fld!(Ipv6Packet<'_>, "ipv6", "next_header", 48, 8, 8, "RFC 8200", |p, x| p.set_next_header(IpProtocol::from(x as u8)), |q| q.get_next_header().id()));
    v.push(fld!(Ipv6Packet<'_>, "ipv6", "hop_limit", 56, 8, 8, "RFC 8200", |p, x| p.set_hop_limit(x as u8), |q| q.get_hop_limit()));
    v.push(fld!(Ipv6Packet<'_>, "ipv6", "source_address", 64, 128, 128, "RFC 8200", |p, x| p.set_source_address(v6a(x)), |q| u128::from_be_bytes(q.get_source_address().octets())));
    v.push(fld!(Ipv6Packet<'_>, "ipv6", "destination_address", 192, 128, 128, "RFC 8200", |p, x| p.set_destination_address(v6a(x)), |q| u128::from_be_bytes(q.get_destination_address().octets())));
    // ---- UDP, RFC 768
    v.push(fld!(UdpPacket<'_>, "udp", "source", 0, 16, 16, "RFC 768", |p, x| p.set_source(x as u16), |q| q.get_source()));
    v.push(fld!(UdpPacket<'_>, "udp", "destination", 16, 16, 16, "RFC 768", |p, x| p.set_destination(x as u16), |q| q.get_destination()));
    v.push(fld!(UdpPacket<'_>, "udp", "length", 32, 16, 16, "RFC 768", |p, x| p.set_length(x as u16), |q| q.get_length()));
    v.push(fld!(UdpPacket<'_>, "udp", "checksum", 48, 16, 16, "RFC 768", |p, x| p.set_checksum(x as u16), |q| q.get_checksum()));
    // ---- TCP, RFC 793 figure 3 with the RFC 3540 nonce bit counted among the flags (the
    //      layout trippy exposes: 4-bit offset, 3 reserved bits, 9 flag bits); RFC 9293 calls
    //      the same four bits "Rsrvd".
    v.push(fld!(TcpPacket<'_>, "tcp", "source", 0, 16, 16, "RFC 9293", |p, x| p.set_source(x as u16), |q| q.get_source()));
    v.push(fld!(TcpPacket<'_>, "tcp", "destination", 16, 16, 16, "RFC 9293", |p, x| p.set_destination(x as u16), |q| q.get_destination()));
    v.push(fld!(TcpPacket<'_>, "tcp", "sequence", 32, 32, 32, "RFC 9293", |p, x| p.set_sequence(x as u32), |q| q.get_sequence()));
    v.push(fld!(TcpPacket<'_>, "tcp", "acknowledgement", 64, 32, 32, "RFC 9293", |p, x| p.set_acknowledgement(x as u32), |q| q.get_acknowledgement()));
    v.push(fld!(TcpPacket<'_>, "tcp", "data_offset", 96, 4, 8, "RFC 9293", |p, x| p.set_data_offset(x as u8), |q| q.get_data_offset()));
    v.push(fld!(TcpPacket<'_>, "tcp", "reserved", 100, 3, 8, "RFC 793/3540", |p, x| p.set_reserved(x as u8), |q| q.get_reserved()));
    v.push(fld!(TcpPacket<'_>, "tcp", "flags", 103, 9, 16, "RFC 793/3540", |p, x| p.set_flags(x as u16), |q| q.get_flags()));
    v.push(fld!(TcpPacket<'_>, "tcp", "window_size", 112, 16, 16, "RFC 9293", |p, x| p.set_window_size(x as u16), |q| q.get_window_size()));
    v.push(fld!(TcpPacket<'_>, "tcp", "checksum", 128, 16, 16, "RFC 9293", |p, x| p.set_checksum(x as u16), |q| q.get_checksum()));
    v.push(fld!(TcpPacket<'_>, "tcp", "urgent_pointer", 144, 16, 16, "RFC 9293", |p, x| p.set_urgent_pointer(x as u16), |q| q.get_urgent_pointer()));
    // ---- ICMPv4, RFC 792 (+ RFC 4884 length, RFC 1191 next-hop MTU)
    icmp_common!(v, icmpv4, icmpv4::IcmpPacket<'_>, "icmpv4", "RFC 792");
    icmp_echo!(v, icmpv4, icmpv4::echo_request::EchoRequestPacket<'_>, "icmpv4.echo_request", "RFC 792");
    icmp_echo!(v, icmpv4, icmpv4::echo_reply::EchoReplyPacket<'_>, "icmpv4.echo_reply", "RFC 792");
    icmp_common!(v, icmpv4, icmpv4::time_exceeded::TimeExceededPacket<'_>, "icmpv4.time_exceeded", "RFC 792");
    v.push(fld!(icmpv4::time_exceeded::TimeExceededPacket<'_>, "icmpv4.time_exceeded", "length", 40, 8, 8, "RFC 4884", |p, x| p.set_length(x as u8), |q| q.get_length()));
    icmp_common!(v, icmpv4, icmpv4::destination_unreachable::DestinationUnreachablePacket<'_>, "icmpv4.destination_unreachable", "RFC 792");
    v.push(fld!(icmpv4::destination_unreachable::DestinationUnreachablePacket<'_>, "icmpv4.destination_unreachable", "length", 40, 8, 8, "RFC 4884", |p, x| p.set_length(x as u8), |q| q.get_length()));
    v.push(fld!(icmpv4::destination_unreachable::DestinationUnreachablePacket<'_>, "icmpv4.destination_unreachable", "next_hop_mtu", 48, 16, 16, "RFC 1191", |p, x| p.set_next_hop_mtu(x as u16), |q| q.get_next_hop_mtu()));
    // ---- ICMPv6, RFC 4443 (+ RFC 4884 length)
    icmp_common!(v, icmpv6, icmpv6::IcmpPacket<'_>, "icmpv6", "RFC 4443");
    icmp_echo!(v, icmpv6, icmpv6::echo_request::EchoRequestPacket<'_>, "icmpv6.echo_request", "RFC 4443");
    icmp_echo!(v, icmpv6, icmpv6::echo_reply::EchoReplyPacket<'_>, "icmpv6.echo_reply", "RFC 4443");
    icmp_common!(v, icmpv6, icmpv6::time_exceeded::TimeExceededPacket<'_>, "icmpv6.time_exceeded", "RFC 4443");
    v.push(fld!(icmpv6::time_exceeded::TimeExceededPacket<'_>, "icmpv6.time_exceeded", "length", 32, 8, 8, "RFC 4884", |p, x| p.set_length(x as u8), |q| q.get_length()));
    icmp_common!(v, icmpv6, icmpv6::destination_unreachable::DestinationUnreachablePacket<'_>, "icmpv6.destination_unreachable", "RFC 4443");
    v.push(fld!(icmpv6::destination_unreachable::DestinationUnreachablePacket<'_>, "icmpv6.destination_unreachable", "length", 32, 8, 8, "RFC 4884", |p, x| p.set_length(x as u8), |q| q.get_length()));
    // (no RFC position: ICMPv6 Destination Unreachable has no MTU field; only exactness and independence are meaningful)
    v.push(fld!(icmpv6::destination_unreachable::DestinationUnreachablePacket<'_>, "icmpv6.destination_unreachable", "next_hop_mtu", 48, 16, 16, "(as implemented)", |p, x| p.set_next_hop_mtu(x as u16), |q| q.get_next_hop_mtu()));
    // ---- RFC 4884 extension header / object, RFC 4950 label stack member
    v.push(fld!(ExtensionHeaderPacket<'_>, "ext.header", "version", 0, 4, 8, "RFC 4884", |p, x| p.set_version(x as u8), |q| q.get_version()));
    v.push(fld!(ExtensionHeaderPacket<'_>, "ext.header", "checksum", 16, 16, 16, "RFC 4884", |p, x| p.set_checksum(x as u16), |q| q.get_checksum()));
    v.push(fld!(ExtensionObjectPacket<'_>, "ext.object", "length", 0, 16, 16, "RFC 4884", |p, x| p.set_length(x as u16), |q| q.get_length()));
    v.push(fld!(ExtensionObjectPacket<'_>, "ext.object", "class_num", 16, 8, 8, "RFC 4884", |p, x| p.set_class_num(ClassNum::from(x as u8)), |q| q.get_class_num().id()));
    v.push(fld!(ExtensionObjectPacket<'_>, "ext.object", "class_subtype", 24, 8, 8, "RFC 4884", |p, x| p.set_class_subtype(ClassSubType(x as u8)), |q| q.get_class_subtype().0));
    v.push(fld!(MplsLabelStackMemberPacket<'_>, "mpls.member", "label", 0, 20, 32, "RFC 4950", |p, x| p.set_label(x as u32), |q| q.get_label()));
    v.push(fld!(MplsLabelStackMemberPacket<'_>, "mpls.member", "exp", 20, 3, 8, "RFC 4950", |p, x| p.set_exp(x as u8), |q| q.get_exp()));
    v.push(fld!(MplsLabelStackMemberPacket<'_>, "mpls.member", "bos", 23, 1, 8, "RFC 4950", |p, x| p.set_bos(x as u8), |q| q.get_bos()));
    v.push(fld!(MplsLabelStackMemberPacket<'_>, "mpls.member", "ttl", 24, 8, 8, "RFC 4950", |p, x| p.set_ttl(x as u8), |q| q.get_ttl()));
    v
}

/// Replace bits [off, off+width) of `buf` (network bit order) by the low `width` bits of `val`.
pub fn put_bits(buf: &mut [u8], off: usize, width: usize, val: u128) {
    for i in 0..width {
        let bit = (val >> (width - 1 - i)) & 1;
        let pos = off + i;
        let (byte, shift) = (pos / 8, 7 - pos % 8);
        buf[byte] = (buf[byte] & !(1 << shift)) | ((bit as u8) << shift);
    }
}

pub fn get_bits(buf: &[u8], off: usize, width: usize) -> u128 {
    let mut v = 0u128;
    for i in 0..width {
        let pos = off + i;
        v = (v << 1) | u128::from((buf[pos / 8] >> (7 - pos % 8)) & 1);
    }
    v
}

fn mask(bits: usize) -> u128 {
    if bits >= 128 {
        u128::MAX
    } else {
        (1u128 << bits) - 1
    }
}

/// The oracle for one (field, pre-existing buffer, value).
pub fn check_field(f: &Field, pre: &[u8], val: u128) -> CheckResult {
    let arg = val & mask(f.arg_bits);
    let want = arg & mask(f.width);
    let mut buf = pre.to_vec();
    let (after, got_mut) = (f.set)(&mut buf, arg);
    let id = format!("{}.{}", f.pkt, f.name);
    vensure!(after == buf, format!("{id}:packet-view"), "{id}: packet() differs from the underlying buffer");
    let mut expect = pre.to_vec();
    put_bits(&mut expect, f.off, f.width, want);
    if after != expect {
        // tell the clauses apart
        let inside = get_bits(&after, f.off, f.width);
        let mut masked_after = after.clone();
        let mut masked_pre = pre.to_vec();
        put_bits(&mut masked_after, f.off, f.width, 0);
        put_bits(&mut masked_pre, f.off, f.width, 0);
        if masked_after != masked_pre {
            vfail!(
                format!("{id}:outside-bits-changed"),
                "{id} ({}): set({arg:#x}) over {:02x?} changed bits outside [{}..{}): result {:02x?}",
                f.rfc,
                &pre[..f.min.min(pre.len())],
                f.off,
                f.off + f.width,
                &after[..f.min.min(after.len())]
            );
        }
        vfail!(
            format!("{id}:position"),
            "{id} ({}): set({arg:#x}) stored {inside:#x} at bits [{}..{}), expected {want:#x}",
            f.rfc,
            f.off,
            f.off + f.width
        );
    }
    vensure!(got_mut == want, format!("{id}:get-after-set"), "{id}: set({arg:#x}) then get() = {got_mut:#x}, expected {want:#x}");
    let got_view = (f.get)(&after);
    vensure!(got_view == want, format!("{id}:view-getter"), "{id}: read-only view returns {got_view:#x}, expected {want:#x}");
    // the getter over the untouched buffer reads the RFC position
    let pre_view = (f.get)(pre);
    vensure!(
        pre_view == get_bits(pre, f.off, f.width),
        format!("{id}:getter-position"),
        "{id}: getter over {:02x?} returns {pre_view:#x}, bits at the RFC position are {:#x}",
        &pre[..f.min],
        get_bits(pre, f.off, f.width)
    );
    Ok(())
}

fn prebuf(seed: u64, len: usize) -> Vec<u8> {
    (0..len).map(|i| (mix(seed, i as u64) >> 13) as u8).collect()
}

#[derive(Clone, Debug, Serialize, Deserialize)]
pub struct FieldIdx {
    pub idx: usize,
    pub name: String,
}

fn field_cases(_t: Tier) -> Vec<FieldIdx> {
    fields()
        .iter()
        .enumerate()
        .map(|(idx, f)| FieldIdx { idx, name: format!("{}.{}", f.pkt, f.name) })
        .collect()
}

fn field_sweep(c: &FieldIdx, obs: &mut Obs) -> CheckResult {
    let all = fields();
    let f = &all[c.idx];
    let mut n = 0u64;
    if f.arg_bits <= 16 {
        // every value of the setter's argument type, each over a different pre-existing buffer,
        // plus all-zero and all-one buffers
        for val in 0..(1u128 << f.arg_bits) {
            let pre = prebuf(val as u64 ^ 0xabcdef, f.min + (val as usize % 5));
            check_field(f, &pre, val)?;
            n += 1;
            if val % 97 == 0 {
                check_field(f, &vec![0u8; f.min], val)?;
                check_field(f, &vec![0xffu8; f.min], val)?;
                n += 2;
            }
        }
    } else {
        let m = mask(f.arg_bits);
        let mut vals: Vec<u128> = vec![0, 1, m, m - 1, mask(f.width), mask(f.width).wrapping_add(1), mask(f.width).wrapping_shl(1), 1u128 << (f.width - 1)];
        for i in 0..f.arg_bits {
            vals.push(1u128 << i);
            vals.push(m ^ (1u128 << i));
        }
        for i in 0..200_000u64 {
            vals.push((u128::from(mix(i, 77)) << 64 | u128::from(mix(i, 78))) & m);
        }
        for (i, val) in vals.iter().enumerate() {
            let pre = prebuf(i as u64, f.min + i % 5);
            check_field(f, &pre, *val)?;
            n += 1;
        }
    }
    obs.extra_evals = n - 1;
    obs.nontrivial(&(f.pkt, f.name));
    obs.class(format!("pkt:{}", f.pkt));
    if c.idx % 9 == 0 {
        obs.sample(json!({"field": c.name, "rfc": f.rfc, "bit_offset": f.off, "width": f.width, "setter_arg_bits": f.arg_bits, "values_tried": n}));
    }
    Ok(())
}

// ---------------------------------------------------------------------------------------------

#[derive(Clone, Debug, Serialize, Deserialize)]
pub struct FieldCase {
    pub idx: usize,
    pub pre: Vec<u8>,
    pub val_hi: u64,
    pub val_lo: u64,
}

fn pbt_strat() -> BoxedStrategy<FieldCase> {
    let n = fields().len();
    (0..n, proptest::collection::vec(any::<u8>(), 0..=40), any::<u64>(), any::<u64>(), 0u8..4)
        .prop_map(|(idx, extra, hi, lo, fill)| {
            let min = fields()[idx].min;
            let mut pre = match fill {
                0 => vec![0u8; min],
                1 => vec![0xffu8; min],
                _ => prebuf(lo ^ hi, min),
            };
            pre.extend(extra);
            FieldCase { idx, pre, val_hi: hi, val_lo: lo }
        })
        .boxed()
}

fn pbt_test(c: &FieldCase, obs: &mut Obs) -> CheckResult {
    let all = fields();
    let f = &all[c.idx];
    let val = u128::from(c.val_hi) << 64 | u128::from(c.val_lo);
    check_field(f, &c.pre, val)?;
    if (val & mask(f.arg_bits)) > mask(f.width) {
        obs.class("value-wider-than-field");
    }
    obs.nontrivial(&(c.idx, c.pre.len(), val & mask(f.arg_bits)));
    obs.sample(json!({"field": format!("{}.{}", f.pkt, f.name), "buffer_len": c.pre.len(), "value": format!("{:#x}", val & mask(f.arg_bits))}));
    Ok(())
}

// ---------------------------------------------------------------------------------------------
// construction succeeds exactly for buffers of at least the minimum header size

#[derive(Clone, Debug, Serialize, Deserialize)]
pub struct Ctor {
    pub name: String,
}

macro_rules! ctor {
    ($out:ident, $P:ty, $name:expr, $min:expr) => {
        $out.push((
            $name,
            $min as usize,
            (|buf: &mut [u8]| <$P>::new(buf).is_ok()) as fn(&mut [u8]) -> bool,
            (|buf: &[u8]| <$P>::new_view(buf).is_ok()) as fn(&[u8]) -> bool,
            <$P>::minimum_packet_size(),
        ));
    };
}

#[allow(clippy::type_complexity)]
fn ctors() -> Vec<(&'static str, usize, fn(&mut [u8]) -> bool, fn(&[u8]) -> bool, usize)> {
    let mut out = vec![];
    ctor!(out, Ipv4Packet<'_>, "ipv4", 20);
    ctor!(out, Ipv6Packet<'_>, "ipv6", 40);
    ctor!(out, UdpPacket<'_>, "udp", 8);
    ctor!(out, TcpPacket<'_>, "tcp", 20);
    ctor!(out, icmpv4::IcmpPacket<'_>, "icmpv4", 8);
    ctor!(out, icmpv4::echo_request::EchoRequestPacket<'_>, "icmpv4.echo_request", 8);
    ctor!(out, icmpv4::echo_reply::EchoReplyPacket<'_>, "icmpv4.echo_reply", 8);
    ctor!(out, icmpv4::time_exceeded::TimeExceededPacket<'_>, "icmpv4.time_exceeded", 8);
    ctor!(out, icmpv4::destination_unreachable::DestinationUnreachablePacket<'_>, "icmpv4.destination_unreachable", 8);
    ctor!(out, icmpv6::IcmpPacket<'_>, "icmpv6", 8);
    ctor!(out, icmpv6::echo_request::EchoRequestPacket<'_>, "icmpv6.echo_request", 8);
    ctor!(out, icmpv6::echo_reply::EchoReplyPacket<'_>, "icmpv6.echo_reply", 8);
    ctor!(out, icmpv6::time_exceeded::TimeExceededPacket<'_>, "icmpv6.time_exceeded", 8);
    ctor!(out, icmpv6::destination_unreachable::DestinationUnreachablePacket<'_>, "icmpv6.destination_unreachable", 8);
    ctor!(out, ExtensionsPacket<'_>, "ext.structure", 4);
    ctor!(out, ExtensionHeaderPacket<'_>, "ext.header", 4);
    ctor!(out, ExtensionObjectPacket<'_>, "ext.object", 4);
    ctor!(out, MplsLabelStackPacket<'_>, "mpls.stack", 4);
    ctor!(out, MplsLabelStackMemberPacket<'_>, "mpls.member", 4);
    out
}

fn ctor_cases(_t: Tier) -> Vec<Ctor> {
    ctors().iter().map(|c| Ctor { name: c.0.to_string() }).collect()
}

fn ctor_test(c: &Ctor, obs: &mut Obs) -> CheckResult {
    let all = ctors();
    let (name, rfc_min, new, new_view, declared) = all.iter().find(|x| x.0 == c.name).copied().expect("ctor");
    vensure!(declared == rfc_min, format!("{name}:minimum-size"), "{name}: minimum_packet_size() = {declared}, the header is {rfc_min} octets");
    for len in 0..=rfc_min + 16 {
        let mut b = prebuf(len as u64, len);
        let snapshot = b.clone();
        let ok_view = new_view(&b);
        let ok_new = new(&mut b);
        vensure!(b == snapshot, format!("{name}:construction-writes"), "{name}: construction modified the buffer");
        vensure!(
            ok_view == (len >= rfc_min) && ok_new == (len >= rfc_min),
            format!("{name}:construction"),
            "{name}: with {len} octets new() = {ok_new}, new_view() = {ok_view}; minimum is {rfc_min}"
        );
    }
    obs.extra_evals = rfc_min as u64 + 16;
    obs.nontrivial(&name);
    Ok(())
}

pub fn check() -> PropertyCheck {
    PropertyCheck {
        id: "C12",
        level: "exploration",
        rule: "field table written from the RFCs (bit offset, width) for every setter/getter pair of every packet type (79 fields). field-sweep: every value of the setter's argument type for arguments <= 16 bits (so values wider than the field are included), boundary + one-hot + 200k random values for wider ones, each over a different pre-existing buffer plus all-zero / all-one buffers; oracle = the buffer after the setter equals the buffer before with exactly the field's bits replaced by value mod 2^width at the RFC position, getters (mutable and read-only view) return that, getters over untouched buffers read the RFC position. field-pbt: random (field, buffer of min..min+40 octets, value). construction: new/new_view succeed iff len >= header size for lengths 0..min+16. evaluations count (field, buffer, value) triples; every field counts as one non-trivial case in the sweep",
        assumptions: vec![
            "TCP: the RFC 793 / RFC 3540 layout trippy exposes (3 reserved bits, 9 flag bits) is taken as the reference; RFC 9293 names the same four bits Rsrvd",
            "ICMPv6 Destination Unreachable has no next-hop-MTU field in RFC 4443; that accessor is checked for exactness and independence at the position it is implemented",
            "setters called on a read-only view panic by design and are not exercised",
        ],
        subs: vec![
            Box::new(Enumerated {
                name: "field-sweep",
                exhaustive_note: Some("all values of every setter argument of at most 16 bits"),
                cases: field_cases,
                test: field_sweep,
            }),
            Box::new(Pbt {
                name: "field-pbt",
                quick: 1_000_000,
                thorough: 80_000_000,
                strat: pbt_strat,
                test: pbt_test,
                max_shrink: 5000,
            }),
            Box::new(Enumerated {
                name: "construction",
                exhaustive_note: Some("all buffer lengths 0..min+16 for each of the 19 packet types"),
                cases: ctor_cases,
                test: ctor_test,
            }),
        ],
    }
}
