//! C18 Hop privacy: hidden hops never reach the screen.

use super::c17::{op_strat, trace_setup, ui_setup};
use crate::engine::*;
use crate::tui::{self, Cmd, Op, TuiCase};
use crate::{vensure, vfail};
use proptest::prelude::*;
use proptest::strategy::BoxedStrategy;
use serde_json::json;
use std::net::{IpAddr, Ipv4Addr};
use trippy_core::FlowId;

fn strat() -> BoxedStrategy<TuiCase> {
    (
        proptest::collection::vec(trace_setup(), 1..=2),
        // a terminal that can hold the whole table, so that visible hops must be present
        prop_oneof![3 => ui_setup(true), 1 => ui_setup(false)],
        proptest::collection::vec(
            prop_oneof![
                4 => op_strat(false),
                3 => prop_oneof![Just(Cmd::ExpandPrivacy), Just(Cmd::ContractPrivacy), Just(Cmd::ToggleMap), Just(Cmd::ToggleChart), Just(Cmd::ToggleHopDetails), Just(Cmd::ToggleFlows), Just(Cmd::NextHop), Just(Cmd::AddressModeBoth), Just(Cmd::AddressModeHost), Just(Cmd::AddressModeIp), Just(Cmd::ExpandHostsMax)].prop_map(Op::Key),
            ],
            1..=40,
        ),
        prop_oneof![1 => Just(None), 3 => (0u8..=14).prop_map(Some)],
    )
        .prop_map(|(mut traces, mut ui, ops, privacy)| {
            ui.privacy = privacy;
            for t in &mut traces {
                // the fixtures name IPv4 hosts
                t.cfg.v6 = false;
                // warm every trace up so that a source address exists to be hidden
                t.sim_rounds = t.sim_rounds.max(1);
                t.fatal = false;
            }
            TuiCase { traces, ui, ops, hash_keys: None }
        })
        .boxed()
}

/// Does `row` contain `needle` as a whole token (not as part of a longer address / name)?
fn contains_token(row: &str, needle: &str) -> bool {
    let mut start = 0;
    while let Some(pos) = row[start..].find(needle) {
        let a = start + pos;
        let b = a + needle.len();
        let before = row[..a].chars().next_back();
        let after = row[b..].chars().next();
        let joins = |c: Option<char>| c.is_some_and(|c| c.is_ascii_alphanumeric() || c == '.');
        // "10.9.1.1" inside "10.9.1.12" or "110.9.1.1" is another address
        let digit_after = after.is_some_and(|c| c.is_ascii_digit());
        let digit_before = before.is_some_and(|c| c.is_ascii_digit());
        if !(digit_after || digit_before) && !(joins(before) && joins(after)) {
            return true;
        }
        start = a + 1;
        if start >= row.len() {
            break;
        }
    }
    false
}

fn as_v4(a: &IpAddr) -> Option<Ipv4Addr> {
    match a {
        IpAddr::V4(v) if v.octets()[0] == 10 && v.octets()[1] == 9 => Some(*v),
        _ => None,
    }
}

fn check_frame(s: &tui::Session, step: &str, obs: &mut Obs) -> CheckResult {
    let app = &s.app;
    let rows = s.rows();
    let n = app.tui_config.privacy_max_ttl;
    let data = app.tracer_data();
    // responding hops of every flow of the displayed data
    let mut flow_ids = vec![FlowId(0)];
    flow_ids.extend(data.flows().iter().map(|(_, id)| *id));
    let mut visible_addrs: Vec<Ipv4Addr> = vec![];
    let mut hidden: Vec<(u8, Ipv4Addr)> = vec![];
    for id in &flow_ids {
        for hop in data.hops_for_flow(*id) {
            if hop.ttl() == 0 || hop.total_recv() == 0 {
                continue;
            }
            for a in hop.addrs().filter_map(as_v4) {
                if n.is_some_and(|n| hop.ttl() <= n) {
                    hidden.push((hop.ttl(), a));
                } else {
                    visible_addrs.push(a);
                }
            }
        }
    }
    if let Some(n) = n {
        for (ttl, a) in &hidden {
            // a string that also belongs to a visible hop may legitimately be on screen
            if visible_addrs.contains(a) {
                continue;
            }
            for secret in tui::secrets(*a) {
                if let Some((y, row)) = rows.iter().enumerate().find(|(_, r)| contains_token(r, &secret)) {
                    vfail!(
                        "hidden-hop-on-screen",
                        "{step}: privacy max ttl {n}, hop ttl {ttl} ({a}) is hidden but `{secret}` is on screen (row {y}: `{}`); view: map={} chart={} details={} flows={} help={} settings={}",
                        row.trim(),
                        app.show_map,
                        app.show_chart,
                        app.show_hop_details,
                        app.show_flows,
                        app.show_help,
                        app.show_settings
                    );
                }
            }
        }
        // the source address is hidden whenever privacy is in force
        for t in &s.setups {
            let src = t.cfg.src_addr().to_string();
            if let Some((y, row)) = rows.iter().enumerate().find(|(_, r)| contains_token(r, &src)) {
                vfail!("source-on-screen", "{step}: privacy max ttl {n} but the source address {src} is on screen (row {y}: `{}`)", row.trim());
            }
            // ... and so is the name it resolves to (seeded, unless the target shares it)
            let name = tui::other_hostname(t.cfg.src_addr());
            if s.setups.iter().all(|o| tui::other_hostname(o.cfg.target_addr()) != name) {
                if let Some((y, row)) = rows.iter().enumerate().find(|(_, r)| contains_token(r, &name)) {
                    vfail!("source-name-on-screen", "{step}: privacy max ttl {n} but the host name of the source address, {name}, is on screen (row {y}: `{}`)", row.trim());
                }
                obs.class("frame-with-hidden-source");
            }
        }
        if !hidden.is_empty() {
            obs.class("frame-with-hidden-responding-hop");
        }
    }
    // hops above n are shown normally: in the plain hop table on a terminal that holds it all,
    // every address of every visible responding hop of the selected flow is on screen
    let area = s.terminal.backend().buffer().area;
    let plain_table = !(app.show_map || app.show_chart || app.show_help || app.show_settings || app.show_hop_details);
    let host_column = rows.iter().any(|r| r.contains("Host"));
    if plain_table && host_column && area.width >= 200 && area.height >= 80 && app.tui_config.max_addrs.is_none() {
        let hops = data.hops_for_flow(app.selected_flow);
        let total_rows: usize = hops.iter().map(|h| h.addr_count().max(1)).sum();
        if total_rows + 16 < usize::from(area.height) {
            for hop in hops {
                if hop.ttl() == 0 || hop.total_recv() == 0 || n.is_some_and(|n| hop.ttl() <= n) {
                    continue;
                }
                for a in hop.addrs().filter_map(as_v4) {
                    // whichever address mode is active, the IP or the seeded host name is shown
                    let shown = rows.iter().any(|r| contains_token(r, &a.to_string()) || contains_token(r, &tui::hostname(a)));
                    vensure!(
                        shown,
                        "visible-hop-missing",
                        "{step}: hop ttl {} ({a}) is above the privacy ttl {n:?} but neither its address nor its host name is on screen",
                        hop.ttl()
                    );
                }
            }
            obs.class("presence-checked");
        }
    }
    Ok(())
}

fn test(c: &TuiCase, obs: &mut Obs) -> CheckResult {
    WATCH_S.store(std::env::var("VERIF_WATCH_S").ok().and_then(|v| v.parse().ok()).unwrap_or(90), std::sync::atomic::Ordering::Relaxed);
    let mut s = tui::start(c)?;
    match s.refresh_and_draw() {
        Ok(()) => {}
        Err(f) if f.sig == super::c17::LAYOUT_HANG_SIG => {
            obs.excluded("frame not drawn: layout solver cycling (recorded C17 finding)");
            return Ok(());
        }
        Err(f) => return Err(f),
    }
    // the privacy ttl asked for on the command line is the one in force when the session starts,
    // whatever the other options (the frames are judged against the value in force)
    vensure!(
        s.app.tui_config.privacy_max_ttl == c.ui.privacy,
        "privacy-not-in-force",
        "--tui-privacy-max-ttl {:?} was asked for (first-ttl of the traces {:?}), in force at start: {:?}",
        c.ui.privacy,
        c.traces.iter().map(|t| t.cfg.first_ttl).collect::<Vec<_>>(),
        s.app.tui_config.privacy_max_ttl
    );
    check_frame(&s, "initial frame", obs)?;
    let mut privacy_steps = 0usize;
    let mut frames_hidden = 0usize;
    for (i, op) in c.ops.iter().enumerate() {
        let before = s.app.tui_config.privacy_max_ttl;
        let hop_count = if s.app.show_help || s.app.show_settings {
            None
        } else {
            let d = s.app.tracer_data();
            let known = s.app.selected_flow == FlowId(0) || d.flows().iter().any(|(_, id)| *id == s.app.selected_flow);
            known.then(|| d.hops_for_flow(s.app.selected_flow).len())
        };
        if let Err(f) = s.apply(op) {
            return Err(Fail::new(f.sig, format!("step {i} ({op:?}): {}", f.msg)));
        }
        // expand / contract move n by exactly one step between off, 0 and the hop count
        if let (Op::Key(k @ (Cmd::ExpandPrivacy | Cmd::ContractPrivacy)), Some(hc)) = (op, hop_count) {
            let after = s.app.tui_config.privacy_max_ttl;
            let want = match (k, before) {
                (Cmd::ExpandPrivacy, None) => Some(0),
                (Cmd::ExpandPrivacy, Some(n)) if usize::from(n) < hc => Some(n + 1),
                (Cmd::ExpandPrivacy, Some(n)) => Some(n),
                (_, None) => None,
                (_, Some(0)) => None,
                (_, Some(n)) => Some(n - 1),
            };
            vensure!(
                after == want,
                "privacy-step",
                "step {i}: {k:?} with privacy {before:?} and {hc} hops gave {after:?}, expected {want:?}"
            );
            privacy_steps += 1;
        }
        match s.refresh_and_draw() {
            Ok(()) => {}
            Err(f) if f.sig == super::c17::LAYOUT_HANG_SIG => {
                // the recorded C17 finding (layout solver cycling) says nothing about privacy
                obs.excluded("frame not drawn: layout solver cycling (recorded C17 finding)");
                return Ok(());
            }
            Err(f) => return Err(Fail::new(f.sig, format!("after step {i} ({op:?}): {}", f.msg))),
        }
        check_frame(&s, &format!("after step {i} ({op:?})"), obs)?;
        if s.app.tui_config.privacy_max_ttl.is_some() {
            frames_hidden += 1;
        }
    }
    if privacy_steps > 0 {
        obs.class("privacy-keys");
    }
    if frames_hidden >= 2 {
        obs.class("nontrivial");
        obs.nontrivial(&serde_json::to_string(&(&c.ops, &c.ui)).unwrap_or_default());
    }
    obs.extra_evals = c.ops.len() as u64;
    obs.sample(json!({"privacy": c.ui.privacy, "address_mode": c.ui.address_mode % 3, "geoip_mode": c.ui.geoip_mode % 4, "as_info": c.ui.as_info, "size": [c.ui.width, c.ui.height], "frames_with_privacy": frames_hidden, "privacy_key_presses": privacy_steps}));
    Ok(())
}

pub fn check() -> PropertyCheck {
    PropertyCheck {
        id: "C18",
        level: "exploration",
        rule: "the C17 driver with every hop address given a seeded host name, AS record (number, prefix, registry, allocation date, name) and GeoIP record (city, region, country, continent, postal code; generated MaxMind DB), privacy ttl None / 0..14 from the command line and moved by the expand / contract keys, all address / AS / GeoIP / extension modes, hop details, max-addrs, flows, chart, map; after every drawn frame every row of the TestBackend buffer is searched (whole-token match) for each identifying string of every responding hop with ttl <= n of every flow of the displayed data and for the source address and its (seeded) reverse-DNS name; on terminals >= 200x80 showing the plain table every address of every visible responding hop must be on screen (IP or host name); expand / contract are checked against the step model off <-> 0 .. hop count. evaluations count operations; non-trivial = >= 2 frames drawn with privacy in force; distinct by (operations, UI setup)",
        assumptions: vec![
            "strings that also belong to a visible hop of the displayed data are not counted against a hidden hop",
            "latitude / longitude / radius are not searched for (indistinguishable from timings)",
            "the first GeoIP lookup of an address returns nothing (cache insert quirk), so GeoIP text appears from the second frame on",
        ],
        subs: vec![Box::new(Pbt { name: "privacy", quick: 6_000, thorough: 600_000, strat, test, max_shrink: 3000 })],
    }
}
