//! C15 Flow identifiers are stable, consistent and bounded.

use super::c05::{aggregate, build_round, compare_hop, history_strat, BuiltRound, HistOpts, History};
use crate::engine::*;
use crate::vensure;
use proptest::strategy::BoxedStrategy;
use serde_json::json;
use std::collections::BTreeMap;
use std::net::IpAddr;
use trippy_core::verif::StateConfig;
use trippy_core::{CompletionReason, FlowEntry, FlowId, ProbeStatus, Round, State, TimeToLive};

fn strat() -> BoxedStrategy<History> {
    // few responders per hop so that rounds collide into the same flows often, small flow limits
    history_strat(HistOpts { max_rounds: 30, max_probes: 7, hosts_per_hop: 2, max_flows: (1, 6), first_ttl_max: 40, ..HistOpts::default() })
}

fn wide_strat() -> BoxedStrategy<History> {
    history_strat(HistOpts { max_rounds: 120, max_probes: 10, hosts_per_hop: 3, max_flows: (1, 64), first_ttl_max: 254, ..HistOpts::default() })
}

/// The addresses seen in a round by TTL position (position 0 = the first TTL probed): those
/// on the path (TTL up to the reported path length) when `path_only`, else all of them.
fn round_addresses(b: &BuiltRound, path_only: bool) -> Vec<(usize, IpAddr)> {
    let mut first: Option<u8> = None;
    let mut out = vec![];
    for p in &b.probes {
        let ttl = match p {
            ProbeStatus::Complete(c) => c.ttl.0,
            ProbeStatus::Awaited(a) => a.ttl.0,
            ProbeStatus::Failed(f) => f.ttl.0,
            _ => continue,
        };
        let f = *first.get_or_insert(ttl);
        if let ProbeStatus::Complete(c) = p {
            // only the path up to the reported length is attributed to a flow
            if !path_only || ttl <= b.largest_ttl {
                out.push((usize::from(ttl - f), c.host));
            }
        }
    }
    out
}

fn entries_of(state: &State, id: FlowId) -> Option<Vec<FlowEntry>> {
    state.flows().iter().find(|(_, i)| *i == id).map(|(f, _)| f.entries.clone())
}

/// Does a round (as address-by-position list) agree with a recorded flow?
fn agrees(entries: &[FlowEntry], addrs: &[(usize, IpAddr)]) -> bool {
    addrs.iter().all(|(p, a)| match entries.get(*p) {
        Some(FlowEntry::Known(x)) => x == a,
        _ => true,
    })
}

fn test(h: &History, obs: &mut Obs) -> CheckResult {
    let mut state = State::new(StateConfig { max_samples: h.max_samples, max_flows: h.max_flows });
    let mut seq = 33434u16;
    let mut built: Vec<BuiltRound> = vec![];
    // rounds attributed to each flow id (by the id reported after the round)
    let mut attributed: BTreeMap<u64, Vec<usize>> = BTreeMap::new();
    let mut prev_flows: Vec<(u64, Vec<FlowEntry>)> = vec![];
    let mut full_and_matching = 0usize;
    let mut merges = 0usize;
    for (k, r) in h.rounds.iter().enumerate() {
        let b = build_round(h, k, r, seq);
        seq = seq.wrapping_add(b.probes.len() as u16);
        let addrs = round_addresses(&b, true);
        let all_addrs = round_addresses(&b, false);
        let was_full = prev_flows.len() >= h.max_flows;
        // an already registered flow that agrees with *every* address seen in the round: whatever
        // part of the round the implementation attributes, it must find a match
        let strict_match = prev_flows.iter().any(|(_, e)| agrees(e, &all_addrs));
        let counts_before: BTreeMap<u64, usize> = prev_flows.iter().map(|(id, _)| (*id, state.round_count(FlowId(*id)))).collect();
        let round = Round::new(&b.probes, TimeToLive(b.largest_ttl), CompletionReason::TargetFound);
        state.update_from_round(&round);
        built.push(b);
        let flows: Vec<(u64, Vec<FlowEntry>)> = state.flows().iter().map(|(f, id)| (id.0, f.entries.clone())).collect();
        // ids are issued densely from 1, never more than max-flows
        for (i, (id, _)) in flows.iter().enumerate() {
            vensure!(*id == i as u64 + 1, "dense-ids", "after round {k}: flow ids {:?} are not 1..=n", flows.iter().map(|f| f.0).collect::<Vec<_>>());
        }
        vensure!(flows.len() <= h.max_flows, "max-flows", "after round {k}: {} flows with max-flows {}", flows.len(), h.max_flows);
        // every id keeps denoting a path that extends what was recorded under it
        for (id, old) in &prev_flows {
            let Some((_, new)) = flows.iter().find(|(i, _)| i == id) else {
                return Err(Fail::new("flow-forgotten", format!("after round {k}: flow {id} disappeared")));
            };
            vensure!(new.len() >= old.len(), "flow-shrunk", "after round {k}: flow {id} shrank from {} to {} entries", old.len(), new.len());
            for (p, (o, n)) in old.iter().zip(new).enumerate() {
                if let FlowEntry::Known(x) = o {
                    vensure!(n == &FlowEntry::Known(*x), "flow-contradicted", "after round {k}: flow {id} position {p} changed from {o} to {n}");
                } else if matches!(n, FlowEntry::Known(_)) {
                    merges += 1;
                }
            }
        }
        // which flow did this round go to?  (observed: the flow whose round count moved)
        let moved: Vec<u64> = flows
            .iter()
            .map(|(id, _)| *id)
            .filter(|id| state.round_count(FlowId(*id)) != counts_before.get(id).copied().unwrap_or(0))
            .collect();
        vensure!(moved.len() <= 1, "attributed-twice", "round {k} changed the round count of flows {moved:?}");
        for id in &moved {
            let before = counts_before.get(id).copied().unwrap_or(0);
            vensure!(state.round_count(FlowId(*id)) == before + 1, "round-count-step", "round {k}: flow {id} round count went from {before} to {}", state.round_count(FlowId(*id)));
        }
        // ... and is extended by the rounds attributed to it only: a flow the round did not go to
        // records exactly what it recorded before
        for (id, old) in &prev_flows {
            if moved.contains(id) {
                continue;
            }
            if let Some((_, new)) = flows.iter().find(|(i, _)| i == id) {
                vensure!(
                    new == old,
                    "flow-changed-by-foreign-round",
                    "round {k} was attributed to flow {moved:?}, yet flow {id} changed from [{}] to [{}]",
                    old.iter().map(ToString::to_string).collect::<Vec<_>>().join(", "),
                    new.iter().map(ToString::to_string).collect::<Vec<_>>().join(", ")
                );
            }
        }
        let rid = state.round_flow_id().0;
        if was_full {
            vensure!(flows.len() == prev_flows.len(), "created-beyond-max", "round {k}: a flow was created although max-flows {} was reached", h.max_flows);
            if strict_match {
                full_and_matching += 1;
                vensure!(
                    moved.len() == 1,
                    "full-registry-match-not-attributed",
                    "round {k}: the registry is full ({} flows) and the round agrees with a registered flow on every address, but no flow was updated",
                    flows.len()
                );
            }
        } else {
            vensure!(moved.len() == 1, "round-not-attributed", "round {k}: registry not full ({} of {}) but no flow was updated", prev_flows.len(), h.max_flows);
        }
        if let Some(id) = moved.first() {
            vensure!(rid == *id, "round-flow-id", "round {k}: flow {id} was updated but round_flow_id() = {rid}");
            // the flow the round is attributed to agrees with every address seen on its path
            let Some(entries) = entries_of(&state, FlowId(rid)) else {
                return Err(Fail::new("round-flow-unknown", format!("round {k}: round_flow_id {rid} is not a registered flow")));
            };
            for (p, a) in &addrs {
                vensure!(
                    entries.get(*p) == Some(&FlowEntry::Known(*a)),
                    "flow-disagrees-with-round",
                    "round {k}: address {a} was seen at position {p} (ttl {}), but flow {rid} records {:?} there (entries {})",
                    usize::from(h.first_ttl) + p,
                    entries.get(*p).map(ToString::to_string),
                    entries.iter().map(ToString::to_string).collect::<Vec<_>>().join(", ")
                );
            }
            attributed.entry(rid).or_default().push(k);
        }
        prev_flows = flows;
    }
    // the default flow aggregates every round; each flow exactly the rounds attributed to it
    let d = State::default_flow_id();
    vensure!(state.round_count(d) == built.len(), "default-round-count", "default flow counts {} rounds of {}", state.round_count(d), built.len());
    let all: Vec<&BuiltRound> = built.iter().collect();
    let model = aggregate(&all);
    for hop in state.hops() {
        if hop.ttl() != 0 {
            compare_hop("default flow", hop, &model[usize::from(hop.ttl())], h.max_samples)?;
        }
    }
    for (id, _) in &prev_flows {
        let rounds = attributed.get(id).cloned().unwrap_or_default();
        let fid = FlowId(*id);
        vensure!(
            state.round_count(fid) == rounds.len(),
            "flow-round-count",
            "flow {id}: round_count {} but {} rounds were attributed to it ({rounds:?})",
            state.round_count(fid),
            rounds.len()
        );
        let sel: Vec<&BuiltRound> = rounds.iter().map(|k| &built[*k]).collect();
        // the flow's table spans the TTLs its own rounds probed / reported, no more
        let lo = sel.iter().flat_map(|b| b.probes.iter()).filter_map(|p| match p {
            ProbeStatus::Complete(c) => Some(c.ttl.0),
            ProbeStatus::Awaited(a) => Some(a.ttl.0),
            ProbeStatus::Failed(f) => Some(f.ttl.0),
            _ => None,
        }).min().unwrap_or(0);
        let hi = sel.iter().map(|b| b.largest_ttl).max().unwrap_or(0);
        let want_len = if lo == 0 || hi < lo { 0 } else { usize::from(hi - lo) + 1 };
        vensure!(
            state.hops_for_flow(fid).len() == want_len,
            "flow-table-length",
            "flow {id}: hops_for_flow has {} entries, the rounds attributed to it ({rounds:?}) span ttl {lo}..={hi}",
            state.hops_for_flow(fid).len()
        );
        let m = aggregate(&sel);
        for hop in state.hops_for_flow(fid) {
            if hop.ttl() != 0 {
                compare_hop(&format!("flow {id}"), hop, &m[usize::from(hop.ttl())], h.max_samples)?;
            }
        }
    }
    let n = prev_flows.len();
    if n >= 2 {
        obs.class("multi-flow");
    }
    if n == h.max_flows {
        obs.class("registry-full");
    }
    if full_and_matching > 0 {
        obs.class("full-and-matching-round");
    }
    if merges > 0 {
        obs.class("merge");
    }
    if h.first_ttl > 1 {
        obs.class("first-ttl>1");
    }
    if n >= 2 && built.len() >= 3 {
        obs.class("nontrivial");
        obs.nontrivial(&serde_json::to_string(h).unwrap_or_default());
    }
    obs.sample(json!({"first_ttl": h.first_ttl, "max_flows": h.max_flows, "rounds": built.len(), "flows": prev_flows.iter().map(|(id, e)| format!("{id}: {}", e.iter().map(ToString::to_string).collect::<Vec<_>>().join(", "))).collect::<Vec<_>>(),
        "attribution": attributed}));
    Ok(())
}

pub fn check() -> PropertyCheck {
    PropertyCheck {
        id: "C15",
        level: "exploration",
        rule: "synthetic round histories (0..30 rounds, 2 responders per hop so that paths collide, unknown hops, failed and skipped probes, varying lengths, first-ttl 1..40, max-flows 1..6; wide: up to 120 rounds, max-flows up to 64) applied to the real State; after every round: ids dense from 1, count <= max-flows, every id's entries only extend, the attributed flow agrees position by position (position = TTL - first TTL) with every address seen up to the reported path length, first matching flow wins, a full registry creates nothing but still attributes matching rounds; at the end the default flow and every flow equal the C05 model over exactly their rounds. Non-trivial = >= 2 flows and >= 3 rounds; distinct by the whole history",
        assumptions: vec![
            "a round that matches no flow while the registry is full is attributed to none (the statement leaves it open)",
            "only addresses at TTLs up to the round's reported path length belong to the flow",
        ],
        subs: vec![
            Box::new(Pbt { name: "flows", quick: 150_000, thorough: 10_000_000, strat, test, max_shrink: 8000 }),
            Box::new(Pbt { name: "flows-wide", quick: 8_000, thorough: 800_000, strat: wide_strat, test, max_shrink: 5000 }),
        ],
    }
}
