//! C11 Every probe put on the wire is well-formed and as configured.

use super::{e2e, sim_case, SimCase};
use crate::engine::*;
use crate::simnet::gen::GenOpts;
use crate::simnet::world::wire_sequence;
use crate::simnet::*;
use crate::wire::{self, L4};
use crate::{vensure, vfail};
use proptest::strategy::BoxedStrategy;
use serde_json::json;
use std::net::IpAddr;
use trippy_core::ProbeStatus;

pub fn strat() -> BoxedStrategy<SimCase> {
    sim_case(&GenOpts {
        supported_only: true,
        sending_only: true,
        bad_sizes: true,
        max_hops: 10,
        long_path_pct: 2,
        rounds: (1, 3),
        exts: false,
        ..GenOpts::default()
    })
}

/// The size limits the documentation gives: IP header + transport header .. 1024.
fn size_ok(cfg: &TraceCfg) -> bool {
    let min = if cfg.v6 { 48 } else { 28 };
    match cfg.protocol {
        Proto::Tcp => cfg.packet_size <= 1024,
        _ => (min..=1024).contains(&cfg.packet_size),
    }
}

pub fn check_wire(cfg: &TraceCfg, s: &SendRec, published: Option<&ProbeStatus>) -> CheckResult {
    let Some(w) = &s.wire else { return Ok(()) };
    let i = s.idx;
    let (p_ttl, p_seq, p_sport, p_dport, p_id) = match published {
        Some(ProbeStatus::Awaited(p)) => (p.ttl.0, p.sequence.0, p.src_port.0, p.dest_port.0, p.identifier.0),
        Some(ProbeStatus::Complete(p)) => (p.ttl.0, p.sequence.0, p.src_port.0, p.dest_port.0, p.identifier.0),
        _ => return Ok(()),
    };
    vensure!(w.dst == cfg.target_addr(), "dst", "send #{i}: addressed to {} instead of the target", w.dst);
    vensure!(w.ttl == p_ttl, "ttl", "send #{i}: ttl/hop-limit {} on the wire, probe ttl {p_ttl}", w.ttl);
    // ---- network layer, when the tracer built it
    if w.hdrincl {
        let (h, payload) = match wire::parse_ip4(&w.handed) {
            Ok(x) => x,
            Err(e) => vfail!("ipv4-decode", "send #{i}: {e}"),
        };
        vensure!(h.ihl == 5, "ihl", "send #{i}: IHL {}", h.ihl);
        vensure!(usize::from(h.total_len) == w.handed.len(), "total-length", "send #{i}: total length {} but {} bytes handed to the socket", h.total_len, w.handed.len());
        vensure!(h.tos == cfg.tos, "tos", "send #{i}: tos {} configured {}", h.tos, cfg.tos);
        vensure!(h.flags_frag == 0x4000, "dont-fragment", "send #{i}: flags/fragment {:#06x}, expected DF only", h.flags_frag);
        vensure!(IpAddr::V4(h.src) == cfg.src_addr(), "src", "send #{i}: source {}", h.src);
        let want_proto = if cfg.protocol == Proto::Icmp { wire::PROTO_ICMP } else { wire::PROTO_UDP };
        vensure!(h.proto == want_proto, "protocol", "send #{i}: protocol {}", h.proto);
        vensure!(payload.len() + 20 == w.handed.len(), "payload-bounds", "send #{i}: payload bounds");
    } else if !cfg.v6 && cfg.protocol != Proto::Icmp {
        vensure!(w.tos == cfg.tos, "tos", "send #{i}: socket tos {} configured {}", w.tos, cfg.tos);
    }
    let ((IpAddr::V4(_), IpAddr::V4(_)) | (IpAddr::V6(_), IpAddr::V6(_))) = (w.src, w.dst) else {
        vfail!("family", "send #{i}: mixed address families");
    };
    // ---- transport layer
    let seq = wire_sequence(cfg, w);
    vensure!(seq == Some(p_seq), "sequence-field", "send #{i}: sequence on the wire {seq:?}, probe sequence {p_seq}");
    let l4_bytes: &[u8] = if w.v6 { &w.datagram[40..] } else { &w.datagram[20..] };
    match &w.l4 {
        L4::IcmpEcho { id, cksum, payload, .. } => {
            vensure!(*id == cfg.trace_id && *id == p_id, "trace-id", "send #{i}: ICMP identifier {id}, trace id {}", cfg.trace_id);
            let ty = l4_bytes[0];
            vensure!(ty == if cfg.v6 { wire::ICMP6_ECHO_REQUEST } else { wire::ICMP4_ECHO_REQUEST } && l4_bytes[1] == 0, "icmp-type", "send #{i}: ICMP type {ty} code {}", l4_bytes[1]);
            let ok = match (w.src, w.dst) {
                (IpAddr::V6(s), IpAddr::V6(d)) => {
                    let pseudo = wire::pseudo6(s, d, wire::PROTO_ICMPV6, l4_bytes.len() as u32);
                    wire::verifies(&[&pseudo, l4_bytes])
                }
                _ => wire::verifies(&[l4_bytes]),
            };
            vensure!(ok, "icmp-checksum", "send #{i}: ICMP checksum {cksum:#06x} does not verify");
            vensure!(w.datagram.len() == usize::from(cfg.packet_size), "packet-size", "send #{i}: datagram of {} octets, packet size {}", w.datagram.len(), cfg.packet_size);
            vensure!(payload.iter().all(|b| *b == cfg.pattern), "payload-pattern", "send #{i}: payload is not the configured pattern {}", cfg.pattern);
        }
        L4::Udp { sport, dport, len, cksum, payload } => {
            vensure!(*sport == p_sport && *dport == p_dport, "ports", "send #{i}: ports {sport}->{dport} on the wire, probe {p_sport}->{p_dport}");
            match cfg.ports {
                Ports::FixedSrc(s) => vensure!(*sport == s, "fixed-port", "send #{i}: source port {sport}, fixed {s}"),
                Ports::FixedDest(d) => vensure!(*dport == d, "fixed-port", "send #{i}: destination port {dport}, fixed {d}"),
                Ports::FixedBoth(s, d) => vensure!(*sport == s && *dport == d, "fixed-port", "send #{i}: ports {sport}->{dport}, fixed {s}->{d}"),
                Ports::None => {}
            }
            vensure!(usize::from(*len) == 8 + payload.len() && usize::from(*len) == l4_bytes.len(), "udp-length", "send #{i}: UDP length {len}, {} octets present", l4_bytes.len());
            let ok = match (w.src, w.dst) {
                (IpAddr::V6(s), IpAddr::V6(d)) => wire::verifies(&[&wire::pseudo6(s, d, wire::PROTO_UDP, u32::from(*len)), l4_bytes]),
                (IpAddr::V4(s), IpAddr::V4(d)) => wire::verifies(&[&wire::pseudo4(s, d, wire::PROTO_UDP, *len), l4_bytes]),
                _ => false,
            };
            vensure!(ok, "udp-checksum", "send #{i}: UDP checksum {cksum:#06x} does not verify");
            match (cfg.strategy, cfg.v6, cfg.privileged) {
                (Strat::Paris, _, true) => {
                    vensure!(payload.len() == 2, "paris-payload", "send #{i}: Paris payload of {} octets", payload.len());
                }
                (Strat::Dublin, true, true) => {
                    vensure!(payload.starts_with(b"trippy"), "dublin-magic", "send #{i}: Dublin/IPv6 payload lacks the marker");
                    vensure!(payload[6..].iter().all(|b| *b == cfg.pattern), "payload-pattern", "send #{i}: payload is not the configured pattern");
                }
                _ => {
                    vensure!(w.datagram.len() == usize::from(cfg.packet_size), "packet-size", "send #{i}: datagram of {} octets, packet size {}", w.datagram.len(), cfg.packet_size);
                    vensure!(payload.iter().all(|b| *b == cfg.pattern), "payload-pattern", "send #{i}: payload is not the configured pattern {}", cfg.pattern);
                }
            }
            if cfg.strategy == Strat::Dublin && !cfg.v6 && cfg.privileged {
                let id = u16::from_be_bytes([w.datagram[4], w.datagram[5]]);
                vensure!(id == p_seq, "dublin-ip-id", "send #{i}: IP identification {id}, sequence {p_seq}");
            }
        }
        L4::Tcp { sport, dport } => {
            vensure!(*sport == p_sport && *dport == p_dport, "ports", "send #{i}: ports {sport}->{dport} on the wire, probe {p_sport}->{p_dport}");
        }
    }
    Ok(())
}

pub fn test(c: &SimCase, obs: &mut Obs) -> CheckResult {
    let log = run_trace(&c.cfg, &c.world);
    if !size_ok(&c.cfg) {
        // out-of-range sizes must be rejected with an error value before anything is sent
        if let Some(p) = &log.panic {
            vfail!(panic_sig(p), "tracer panicked on packet size {}: {p}", c.cfg.packet_size);
        }
        vensure!(
            matches!(log.result, Some(Err(_))),
            "bad-size-accepted",
            "packet size {} is outside the limits but the run returned {:?}",
            c.cfg.packet_size,
            log.result
        );
        vensure!(log.sends.iter().all(|s| s.wire.is_none()), "bad-size-sent", "packet size {} is outside the limits but a probe went out", c.cfg.packet_size);
        obs.class("bad-size-rejected");
        obs.nontrivial(&("bad-size", c.cfg.cell(), c.cfg.packet_size));
        return Ok(());
    }
    let Some(truth) = e2e::prepare(&log, obs)? else {
        return Ok(());
    };
    if let Some(Err(e)) = &log.result {
        vfail!("run-error", "run failed without any scripted fault: {e}");
    }
    let mut checked = 0;
    for (k, sends) in truth.round_sends.iter().enumerate() {
        for (pos, &i) in sends.iter().enumerate() {
            check_wire(&c.cfg, &log.sends[i], log.rounds[k].probes.get(pos))?;
            checked += 1;
        }
    }
    obs.class(format!("cell:{}", c.cfg.cell()));
    if checked > 0 {
        obs.class("nontrivial");
        obs.nontrivial(&(c.cfg.cell(), c.cfg.packet_size, c.cfg.tos, c.cfg.pattern, c.cfg.initial_sequence, checked));
        obs.extra_evals = checked as u64 - 1;
    }
    if let Some(s) = log.sends.iter().find(|s| s.wire.is_some()) {
        let w = s.wire.as_ref().unwrap();
        obs.sample(json!({
            "cfg": c.cfg.cell(), "packet_size": c.cfg.packet_size, "tos": c.cfg.tos, "pattern": c.cfg.pattern,
            "first_datagram_hex": w.datagram.iter().take(64).map(|b| format!("{b:02x}")).collect::<String>(),
            "probes_checked": checked,
        }));
    }
    Ok(())
}

fn sweep_test(c: &super::c02::SweepCase, obs: &mut Obs) -> CheckResult {
    let world = super::c02::sweep_world();
    let log = run_trace(&c.cfg, &world);
    let Some(truth) = e2e::prepare(&log, obs)? else {
        vfail!("sweep-not-run", "sweep configuration did not run: {:?}", log.build_error);
    };
    let mut checked = 0u64;
    for (k, sends) in truth.round_sends.iter().enumerate() {
        for (pos, &i) in sends.iter().enumerate() {
            check_wire(&c.cfg, &log.sends[i], log.rounds[k].probes.get(pos))?;
            checked += 1;
        }
    }
    vensure!(checked >= u64::from(c.rounds) * 254, "sweep-shape", "only {checked} probes in {} rounds", c.rounds);
    obs.extra_evals = checked - 1;
    obs.nontrivial(&("sweep", c.cfg.cell(), c.cfg.initial_sequence));
    Ok(())
}

/// The same decoding over runs with scripted socket faults (failed sends, TCP address-in-use
/// re-issues, late fatal errors): whatever does reach the wire after a failure is still
/// well-formed and is the probe the tracer published for that slot.
fn faults_test(c: &SimCase, obs: &mut Obs) -> CheckResult {
    let log = run_trace(&c.cfg, &c.world);
    let Some(truth) = e2e::prepare(&log, obs)? else {
        return Ok(());
    };
    let mut checked = 0u64;
    for (k, sends) in truth.round_sends.iter().enumerate() {
        for (pos, &i) in sends.iter().enumerate() {
            check_wire(&c.cfg, &log.sends[i], log.rounds[k].probes.get(pos))?;
            checked += 1;
        }
    }
    obs.class(format!("proto:{:?}", c.cfg.protocol));
    if checked > 0 {
        obs.extra_evals = checked - 1;
        if log.events.iter().any(|e| matches!(e, Event::Fault { .. })) {
            obs.class("nontrivial");
            obs.nontrivial(&(c.cfg.cell(), c.cfg.packet_size, c.world.faults.len(), checked));
        }
    }
    Ok(())
}

pub fn check() -> PropertyCheck {
    PropertyCheck {
        id: "C11",
        level: "exploration",
        rule: "cases = (supported configuration incl. packet sizes 0..1100, tos, pattern, initial sequence, ports; small world) by proptest; every datagram handed to the simulated send socket is decoded by the independent codec and compared with the configuration and with the probe the tracer published for it; evaluations count probes; non-trivial = at least one probe decoded (or an out-of-range size rejected); distinct by (cell, size, tos, pattern, initial sequence, #probes)",
        assumptions: vec![
            "IPv4 header checksum and (for ICMP) identification are left to the kernel and not checked",
            "for non-raw sockets the simulator builds the headers from the socket options the tracer set",
        ],
        subs: vec![Box::new(Pbt {
            name: "wire-e2e",
            quick: 120_000,
            thorough: 2_000_000,
            strat,
            test,
            max_shrink: 3000,
        }),
        Box::new(Pbt {
            name: "wire-faults",
            quick: 40_000,
            thorough: 1_000_000,
            strat: super::c10::fault_strat,
            test: faults_test,
            max_shrink: 3000,
        }),
        Box::new(Enumerated {
            name: "wire-sweep",
            exhaustive_note: Some("every probe of the C02 sequence sweep (all supported cells, boundary initial sequences, full issuable sequence range in the thorough tier) decoded and checked"),
            cases: super::c02::sweep_cases,
            test: sweep_test,
        })],
    }
}
