//! C06 Probe scheduling discipline: TTL order, limits and in-flight window.

use super::{e2e, sim_case, SimCase};
use crate::engine::*;
use crate::simnet::gen::GenOpts;
use crate::simnet::*;
use proptest::strategy::BoxedStrategy;
use serde_json::json;

fn strat() -> BoxedStrategy<SimCase> {
    sim_case(&GenOpts {
        supported_only: true,
        injections: true,
        max_hops: 40,
        long_path_pct: 5,
        ..GenOpts::default()
    })
}

fn test(c: &SimCase, obs: &mut Obs) -> CheckResult {
    let log = run_trace(&c.cfg, &c.world);
    if e2e::prepare(&log, obs)?.is_none() {
        return Ok(());
    }
    e2e::check_schedule(&log, obs)?;
    obs.class(format!("proto:{:?}", c.cfg.protocol));
    if c.cfg.first_ttl >= c.cfg.max_inflight {
        obs.class("first-ttl>=max-inflight");
    }
    if c.cfg.max_inflight == 1 {
        obs.class("max-inflight=1");
    }
    obs.sample(json!({
        "first_ttl": c.cfg.first_ttl, "max_ttl": c.cfg.max_ttl, "max_inflight": c.cfg.max_inflight,
        "path_lens": c.world.paths.iter().map(|p| p.hops.len() + 1).collect::<Vec<_>>(),
        "sends_per_round": log.rounds.iter().map(|r| r.probes.len()).collect::<Vec<_>>(),
    }));
    Ok(())
}

/// The schedule invariants on runs with scripted socket faults: a probe that failed to send or
/// was re-issued still occupies its place in the TTL order and in the in-flight window.
fn faults_test(c: &SimCase, obs: &mut Obs) -> CheckResult {
    let log = run_trace(&c.cfg, &c.world);
    if e2e::prepare(&log, obs)?.is_none() {
        return Ok(());
    }
    e2e::check_schedule(&log, obs)?;
    obs.class(format!("proto:{:?}", c.cfg.protocol));
    Ok(())
}

/// Long sessions: the sequence numbers pass the wrap (from the greatest accepted initial
/// sequence, or after 512 numbers for Dublin/IPv6) in the middle of the run, so that whatever
/// the tracer re-initialises at the wrap shows in the rounds after it.
fn wrap_strat() -> BoxedStrategy<SimCase> {
    use proptest::strategy::Strategy;
    sim_case(&GenOpts {
        supported_only: true,
        sending_only: true,
        max_hops: 40,
        long_path_pct: 0,
        rounds: (1, 8),
        ..GenOpts::default()
    })
    .prop_map(|mut c| {
        let longest = c.world.paths.iter().map(|p| p.hops.len() + 1).max().unwrap_or(1);
        let span = usize::from(c.cfg.max_ttl.saturating_sub(c.cfg.first_ttl)) + 1;
        let per_round = longest.min(span).max(1);
        c.cfg.initial_sequence = 64511;
        c.cfg.max_rounds = (512 / per_round as u32 + 3 + c.cfg.max_rounds).min(140);
        c
    })
    .boxed()
}

fn wrap_test(c: &SimCase, obs: &mut Obs) -> CheckResult {
    let log = run_trace(&c.cfg, &c.world);
    if e2e::prepare(&log, obs)?.is_none() {
        return Ok(());
    }
    e2e::check_schedule(&log, obs)?;
    obs.class(format!("proto:{:?}", c.cfg.protocol));
    if log.sends.len() > 512 {
        obs.class("more-than-512-sequence-numbers-used");
    }
    Ok(())
}

pub fn check() -> PropertyCheck {
    PropertyCheck {
        id: "C06",
        level: "exploration",
        rule: "cases = (configuration with 1 <= first-ttl <= max-ttl <= 254 and max-inflight 1..255, world) by proptest; oracle = invariants over the ordered log of sends, in-round first genuine responses and publishes, using a bookkeeping model fed with genuine responses only; non-trivial = (first-ttl > 1 or max-inflight <= 4) and a response read between two sends of one round; distinct by (first, max, inflight, per-round (path length, probes))",
        assumptions: vec![
            "the in-flight window is asserted as the statement gives it (ttl - farthest answered <= max-inflight)",
            "SimSocket models the socket layer",
        ],
        subs: {
            let schedule = Pbt { name: "schedule", quick: 60_000, thorough: 3_000_000, strat, test, max_shrink: 3000 };
            let faults = Pbt { name: "schedule-faults", quick: 40_000, thorough: 1_500_000, strat: super::c10::fault_strat, test: faults_test, max_shrink: 3000 };
            let wrap = Pbt { name: "schedule-wrap", quick: 12_000, thorough: 400_000, strat: wrap_strat, test: wrap_test, max_shrink: 2000 };
            vec![Box::new(schedule), Box::new(faults), Box::new(wrap)]
        },
    }
}
