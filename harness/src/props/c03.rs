//! C03 Only genuine current-round responses can complete a probe.

use super::{c01, e2e, sim_case, SimCase};
use crate::engine::*;
use crate::simnet::gen::GenOpts;
use crate::simnet::*;
use proptest::prelude::*;
use proptest::strategy::BoxedStrategy;
use serde::{Deserialize, Serialize};
use serde_json::json;

fn adv_opts() -> GenOpts {
    GenOpts {
        supported_only: true,
        sending_only: true,
        injections: true,
        inj_max: 16,
        max_hops: 16,
        long_path_pct: 1,
        rounds: (2, 10),
        ..GenOpts::default()
    }
}

fn adv_strat() -> BoxedStrategy<SimCase> {
    sim_case(&adv_opts())
}

/// Everything the statement covers: outcomes (junk completes nothing, duplicates change
/// nothing) and the round's target / progress bookkeeping (schedule, timing, path length).
fn full_oracle(log: &RunLog, obs: &mut Obs) -> Result<Option<crate::oracle::Truth>, Fail> {
    let Some(truth) = c01::check_outcomes(log, obs)? else {
        return Ok(None);
    };
    e2e::check_schedule(log, &mut Obs::default())?;
    e2e::check_timing(log, &mut Obs::default())?;
    e2e::check_table(log, &truth, &mut Obs::default())?;
    Ok(Some(truth))
}

fn classify(c: &SimCase, truth: &crate::oracle::Truth, obs: &mut Obs) {
    let mut labels: Vec<String> = truth.junk_read.iter().map(|(_, l)| l.clone()).collect();
    labels.sort();
    labels.dedup();
    for l in &labels {
        obs.class(format!("read:{l}"));
    }
    if truth.dup_read > 0 {
        obs.class("read:duplicate");
        labels.push("duplicate".into());
    }
    if truth.late_read > 0 {
        obs.class("read:late");
        labels.push("late".into());
    }
    if !labels.is_empty() {
        obs.class("nontrivial");
        let shape: Vec<usize> = truth.rounds.iter().map(Vec::len).collect();
        obs.nontrivial(&(c.cfg.cell(), labels, shape, truth.junk_read.len(), truth.dup_read, truth.late_read));
    }
}

fn adv_test(c: &SimCase, obs: &mut Obs) -> CheckResult {
    let log = run_trace(&c.cfg, &c.world);
    let Some(truth) = full_oracle(&log, obs)? else {
        return Ok(());
    };
    for (_, k, ok) in &log.injected {
        if !*ok {
            obs.excluded(format!("injection not applicable: {}", format!("{k:?}").split([' ', '{']).next().unwrap_or("")));
        }
    }
    if c.cfg.trace_id == 0 {
        obs.class("trace-id-0");
    }
    classify(c, &truth, obs);
    obs.sample(json!({
        "cfg": c.cfg.cell(),
        "read_junk": truth.junk_read.iter().map(|(r, l)| format!("round {r}: {l}")).collect::<Vec<_>>(),
        "duplicates_read": truth.dup_read, "late_read": truth.late_read,
    }));
    Ok(())
}

// ---------------------------------------------------------------------------------------------

#[derive(Clone, Debug, Serialize, Deserialize)]
pub struct TwoCase {
    pub a: SimCase,
    pub b_world: WorldSpec,
    pub same_target: bool,
    pub id_delta: u16,
    pub b_offset_ns: u64,
}

fn two_strat() -> BoxedStrategy<TwoCase> {
    let o = GenOpts {
        supported_only: true,
        sending_only: true,
        max_hops: 12,
        long_path_pct: 0,
        rounds: (2, 8),
        ..GenOpts::default()
    };
    (sim_case(&o), sim_case(&o), any::<bool>(), 1u16..=3, 0u64..=50)
        .prop_map(|(a, b, same_target, id_delta, off)| {
            let unit = a.cfg.read_timeout_ns.max(1000);
            TwoCase {
                a,
                b_world: b.world,
                same_target,
                id_delta,
                b_offset_ns: off * unit / 4,
            }
        })
        .boxed()
}

fn two_test(c: &TwoCase, obs: &mut Obs) -> CheckResult {
    let a = &c.a.cfg;
    // the identifiers the CLI assigns are pid + i; the statement covers non-zero identifiers
    let b_id = a.trace_id.wrapping_add(c.id_delta);
    if a.protocol == Proto::Icmp && (b_id == 0 || a.trace_id == 0) {
        obs.excluded("trace identifier 0");
        return Ok(());
    }
    let mut b_cfg = a.clone();
    b_cfg.trace_id = b_id;
    // two tracers with the same target are only distinguishable for ICMP (trace identifier)
    b_cfg.target_idx = if c.same_target { 0 } else { 1 };
    if c.same_target && a.protocol != Proto::Icmp {
        // UDP / TCP tracers with the same target are told apart by their fixed port(s): B
        // differs from A in the source port, the destination port, or both
        let d = c.id_delta;
        b_cfg.ports = match a.ports {
            Ports::FixedSrc(s) => Ports::FixedSrc(s.wrapping_add(d)),
            Ports::FixedDest(p) => Ports::FixedDest(p.wrapping_add(d)),
            Ports::FixedBoth(s, p) => match d {
                1 => Ports::FixedBoth(s.wrapping_add(d), p),
                2 => Ports::FixedBoth(s, p.wrapping_add(d)),
                _ => Ports::FixedBoth(s.wrapping_add(d), p.wrapping_add(d)),
            },
            Ports::None => {
                b_cfg.target_idx = 1;
                Ports::None
            }
        };
    }
    let b_log = run_trace_with(&b_cfg, &c.b_world, |w| w.capture = true);
    if b_log.panic.is_some() || b_log.aborted.is_some() || b_log.build_error.is_some() {
        obs.excluded("second tracer did not run");
        return Ok(());
    }
    let mut world = c.a.world.clone();
    world.raw = b_log
        .captured
        .iter()
        .map(|r| RawInj {
            at_ns: r.at_ns + c.b_offset_ns,
            ..r.clone()
        })
        .collect();
    let log = run_trace(a, &world);
    let Some(truth) = full_oracle(&log, obs)? else {
        return Ok(());
    };
    let foreign = truth.junk_read.iter().filter(|(_, l)| l == "foreign-tracer").count();
    obs.class(format!("proto:{:?}", a.protocol));
    if foreign > 0 {
        obs.class("foreign-read");
        obs.class("nontrivial");
        let shape: Vec<usize> = truth.rounds.iter().map(Vec::len).collect();
        obs.nontrivial(&(a.cell(), c.same_target, foreign, shape));
        if b_cfg.target_idx == 0 && a.protocol != Proto::Icmp {
            obs.class("foreign-read:same-target-other-port");
        }
    }
    obs.sample(json!({
        "cfg": a.cell(), "a_id": a.trace_id, "b_id": b_id, "same_target": b_cfg.target_idx == 0, "b_ports": format!("{:?}", b_cfg.ports),
        "foreign_packets_read": foreign, "foreign_packets_offered": world.raw.len(),
    }));
    Ok(())
}

pub fn check() -> PropertyCheck {
    PropertyCheck {
        id: "C03",
        level: "exploration",
        rule: "adversarial: (configuration, world with up to 16 injected packets: extra genuine responses/duplicates, foreign trace id, other destination / port / protocol, missing Dublin marker, never-sent sequences inside and outside the 512 window, sequences before the round, unhandled ICMP types; late responses through delays beyond a round) by proptest; two-tracers: tracer B (trace id pid+i, same or other target) is run alone and every packet its shared raw socket would show is replayed into tracer A's run at the recorded instants. Oracle = ground-truth outcomes plus schedule, timing and path-length bookkeeping fed with genuine responses only. Non-trivial = at least one junk/duplicate/late/foreign packet read; distinct by (cell, classes read, round shapes)",
        assumptions: vec![
            "a forged packet naming a sequence the tracer has on the wire in the round in progress is indistinguishable from a genuine response; such cases are excluded and counted",
            "responses two or more rounds late are outside the statement (two-round separation) and excluded when they alias",
            "two tracers are run by decomposition (B alone, then A with B's traffic replayed), not concurrently",
        ],
        subs: vec![
            Box::new(Pbt {
                name: "adversarial",
                quick: 100_000,
                thorough: 3_000_000,
                strat: adv_strat,
                test: adv_test,
                max_shrink: 3000,
            }),
            Box::new(Pbt {
                name: "two-tracers",
                quick: 50_000,
                thorough: 1_000_000,
                strat: two_strat,
                test: two_test,
                max_shrink: 2000,
            }),
        ],
    }
}
