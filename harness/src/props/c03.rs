//! C03 Only genuine current-round responses can complete a probe.

use super::{c01, e2e, sim_case, SimCase};
use crate::engine::*;
use crate::simnet::gen::GenOpts;
use crate::simnet::*;
use crate::{vensure, vfail};
use proptest::prelude::*;
use proptest::strategy::BoxedStrategy;
use serde::{Deserialize, Serialize};
use serde_json::json;

fn adv_opts() -> GenOpts {
    GenOpts {
        supported_only: true,
        sending_only: true,
        injections: true,
        inj_max: 16,
        max_hops: 16,
        long_path_pct: 1,
        rounds: (2, 10),
        ..GenOpts::default()
    }
}

fn adv_strat() -> BoxedStrategy<SimCase> {
    sim_case(&adv_opts())
}

/// Everything the statement covers: outcomes (junk completes nothing, duplicates change
/// nothing) and the round's target / progress bookkeeping (schedule, timing, path length).
fn full_oracle(log: &RunLog, obs: &mut Obs) -> Result<Option<crate::oracle::Truth>, Fail> {
    let Some(truth) = c01::check_outcomes(log, obs)? else {
        return Ok(None);
    };
    e2e::check_schedule(log, &mut Obs::default())?;
    e2e::check_timing(log, &mut Obs::default())?;
    e2e::check_table(log, &truth, &mut Obs::default())?;
    Ok(Some(truth))
}

fn classify(c: &SimCase, truth: &crate::oracle::Truth, obs: &mut Obs) {
    let mut labels: Vec<String> = truth.junk_read.iter().map(|(_, l)| l.clone()).collect();
    labels.sort();
    labels.dedup();
    for l in &labels {
        obs.class(format!("read:{l}"));
    }
    if truth.dup_read > 0 {
        obs.class("read:duplicate");
        labels.push("duplicate".into());
    }
    if truth.late_read > 0 {
        obs.class("read:late");
        labels.push("late".into());
    }
    if !labels.is_empty() {
        obs.class("nontrivial");
        let shape: Vec<usize> = truth.rounds.iter().map(Vec::len).collect();
        obs.nontrivial(&(c.cfg.cell(), labels, shape, truth.junk_read.len(), truth.dup_read, truth.late_read));
    }
}

fn adv_test(c: &SimCase, obs: &mut Obs) -> CheckResult {
    let log = run_trace(&c.cfg, &c.world);
    let Some(truth) = full_oracle(&log, obs)? else {
        return Ok(());
    };
    for (_, k, ok) in &log.injected {
        if !*ok {
            obs.excluded(format!("injection not applicable: {}", format!("{k:?}").split([' ', '{']).next().unwrap_or("")));
        }
    }
    if c.cfg.trace_id == 0 {
        obs.class("trace-id-0");
    }
    classify(c, &truth, obs);
    obs.sample(json!({
        "cfg": c.cfg.cell(),
        "read_junk": truth.junk_read.iter().map(|(r, l)| format!("round {r}: {l}")).collect::<Vec<_>>(),
        "duplicates_read": truth.dup_read, "late_read": truth.late_read,
    }));
    Ok(())
}

// ---------------------------------------------------------------------------------------------

#[derive(Clone, Debug, Serialize, Deserialize)]
pub struct TwoCase {
    pub a: SimCase,
    pub b_world: WorldSpec,
    pub same_target: bool,
    pub id_delta: u16,
    pub b_offset_ns: u64,
}

fn two_strat() -> BoxedStrategy<TwoCase> {
    let o = GenOpts {
        supported_only: true,
        sending_only: true,
        max_hops: 12,
        long_path_pct: 0,
        rounds: (2, 8),
        ..GenOpts::default()
    };
    (sim_case(&o), sim_case(&o), any::<bool>(), 1u16..=3, 0u64..=50)
        .prop_map(|(a, b, same_target, id_delta, off)| {
            let unit = a.cfg.read_timeout_ns.max(1000);
            TwoCase {
                a,
                b_world: b.world,
                same_target,
                id_delta,
                b_offset_ns: off * unit / 4,
            }
        })
        .boxed()
}

fn two_test(c: &TwoCase, obs: &mut Obs) -> CheckResult {
    let a = &c.a.cfg;
    // the identifiers the CLI assigns are pid + i; the statement covers non-zero identifiers
    let b_id = a.trace_id.wrapping_add(c.id_delta);
    // (responses carrying identifier 0 are accepted by every tracer by design; a tracer whose own
    // identifier is 0 - the library default - must still ignore B's non-zero one)
    if a.protocol == Proto::Icmp && b_id == 0 {
        obs.excluded("second tracer with trace identifier 0");
        return Ok(());
    }
    if a.protocol == Proto::Icmp && a.trace_id == 0 {
        obs.class("own-trace-id-0");
    }
    let mut b_cfg = a.clone();
    b_cfg.trace_id = b_id;
    // two tracers with the same target are only distinguishable for ICMP (trace identifier)
    b_cfg.target_idx = if c.same_target { 0 } else { 1 };
    if c.same_target && a.protocol != Proto::Icmp {
        // UDP / TCP tracers with the same target are told apart by their fixed port(s): B
        // differs from A in the source port, the destination port, or both
        let d = c.id_delta;
        b_cfg.ports = match a.ports {
            Ports::FixedSrc(s) => Ports::FixedSrc(s.wrapping_add(d)),
            Ports::FixedDest(p) => Ports::FixedDest(p.wrapping_add(d)),
            Ports::FixedBoth(s, p) => match d {
                1 => Ports::FixedBoth(s.wrapping_add(d), p),
                2 => Ports::FixedBoth(s, p.wrapping_add(d)),
                _ => Ports::FixedBoth(s.wrapping_add(d), p.wrapping_add(d)),
            },
            Ports::None => {
                b_cfg.target_idx = 1;
                Ports::None
            }
        };
    }
    let b_log = run_trace_with(&b_cfg, &c.b_world, |w| w.capture = true);
    if b_log.panic.is_some() || b_log.aborted.is_some() || b_log.build_error.is_some() {
        obs.excluded("second tracer did not run");
        return Ok(());
    }
    let mut world = c.a.world.clone();
    world.raw = b_log
        .captured
        .iter()
        .map(|r| RawInj {
            at_ns: r.at_ns + c.b_offset_ns,
            ..r.clone()
        })
        .collect();
    let log = run_trace(a, &world);
    let Some(truth) = full_oracle(&log, obs)? else {
        return Ok(());
    };
    let foreign = truth.junk_read.iter().filter(|(_, l)| l == "foreign-tracer").count();
    obs.class(format!("proto:{:?}", a.protocol));
    if foreign > 0 {
        obs.class("foreign-read");
        obs.class("nontrivial");
        let shape: Vec<usize> = truth.rounds.iter().map(Vec::len).collect();
        obs.nontrivial(&(a.cell(), c.same_target, foreign, shape));
        if b_cfg.target_idx == 0 && a.protocol != Proto::Icmp {
            obs.class("foreign-read:same-target-other-port");
        }
    }
    obs.sample(json!({
        "cfg": a.cell(), "a_id": a.trace_id, "b_id": b_id, "same_target": b_cfg.target_idx == 0, "b_ports": format!("{:?}", b_cfg.ports),
        "foreign_packets_read": foreign, "foreign_packets_offered": world.raw.len(),
    }));
    Ok(())
}

// ---------------------------------------------------------------------------------------------
// the statement as an invariance law on the real round state (`TracerState`), over long histories
// with wrap-around: a response that is not the first answer to a probe of the round in progress
// leaves the probes and the target / progress bookkeeping exactly as they were

#[derive(Clone, Debug, Serialize, Deserialize)]
pub enum SOp {
    /// issue n probes (while the round has capacity and a TTL is left)
    Send(u8),
    /// first response to the pick-th still awaited probe of this round
    Genuine { pick: u16, target: bool },
    /// another response to the pick-th already answered probe of this round
    Duplicate { pick: u16, target: bool },
    /// response to the pick-th probe of the previous round
    PrevRound { pick: u16, target: bool },
    /// response naming (next sequence to issue + offset): not sent in this round (so far)
    Unsent { offset: u16, target: bool },
    /// response naming an arbitrary sequence number
    Any { seq: u16, target: bool },
    Advance,
}

#[derive(Clone, Debug, Serialize, Deserialize)]
pub struct StateCase {
    pub init: u16,
    pub regime: super::c07::Regime,
    pub ops: Vec<SOp>,
}

fn state_strat() -> BoxedStrategy<StateCase> {
    use super::c07::Regime;
    let op = prop_oneof![
        6 => prop_oneof![3 => 1u8..=12, 2 => 1u8..=40, 1 => 30u8..=60].prop_map(SOp::Send),
        4 => (any::<u16>(), prop::bool::weighted(0.2)).prop_map(|(pick, target)| SOp::Genuine { pick, target }),
        2 => (any::<u16>(), prop::bool::weighted(0.2)).prop_map(|(pick, target)| SOp::Duplicate { pick, target }),
        2 => (any::<u16>(), prop::bool::weighted(0.2)).prop_map(|(pick, target)| SOp::PrevRound { pick, target }),
        4 => (prop_oneof![4 => 0u16..=60, 1 => 0u16..=600], prop::bool::weighted(0.2)).prop_map(|(offset, target)| SOp::Unsent { offset, target }),
        1 => (any::<u16>(), prop::bool::weighted(0.2)).prop_map(|(seq, target)| SOp::Any { seq, target }),
        3 => Just(SOp::Advance),
    ];
    (
        // initial sequences from which the wrap is reached within a case, and the usual ones
        prop_oneof![3 => 64300u16..=64511, 1 => Just(64511u16), 1 => crate::simnet::gen::initial_sequence()],
        prop_oneof![2 => Just(Regime::General254), 2 => Just(Regime::DublinV6), 1 => Just(Regime::Tcp512)],
        proptest::collection::vec(op, 1..=260),
    )
        .prop_map(|(init, regime, ops)| StateCase { init, regime, ops })
        .boxed()
}

fn state_test(c: &StateCase, obs: &mut Obs) -> CheckResult {
    use std::net::{IpAddr, Ipv4Addr};
    use std::time::Duration;
    use trippy_core::verif::VerifTracerState;
    use trippy_core::{ProbeStatus, Sequence, TimeToLive};
    let mut st = VerifTracerState::new(super::c07::config(c.init, c.regime));
    let snapshot = |st: &VerifTracerState| {
        (
            format!("{:?}", st.probes()),
            st.max_received_ttl().map(|t| t.0),
            st.target_ttl().map(|t| t.0),
            st.target_found(),
            st.received_time(),
            st.ttl().0,
        )
    };
    // sequences issued in the round in progress (with their TTL), those already answered, and
    // the previous round's
    let mut cur: Vec<(u16, u8)> = vec![];
    let mut answered: Vec<u16> = vec![];
    let mut prev: Vec<u16> = vec![];
    let mut clock = 0u64;
    let (mut wraps, mut stale_named, mut classes) = (0u32, 0u32, std::collections::BTreeSet::new());
    // sequences of earlier rounds that were never answered (candidates for stale slots)
    let mut ever_unanswered: std::collections::BTreeSet<u16> = std::collections::BTreeSet::new();
    let host = IpAddr::V4(Ipv4Addr::new(10, 1, 1, 1));
    for (i, op) in c.ops.iter().enumerate() {
        clock += 1000;
        let now = super::c07::t0() + Duration::from_nanos(clock);
        let respond = |st: &mut VerifTracerState, seq: u16, target: bool| {
            // Strategy::recv_response: only sequences of the round in progress reach complete_probe
            if st.in_round(Sequence(seq)) {
                st.complete_probe(Sequence(seq), host, target, now);
            }
        };
        match *op {
            SOp::Send(n) => {
                for _ in 0..n {
                    if !st.round_has_capacity() || st.ttl().0 >= 254 {
                        break;
                    }
                    let p = st.next_probe(now);
                    cur.push((p.sequence.0, p.ttl.0));
                }
            }
            SOp::Advance => {
                let before_first = cur.first().map(|x| x.0);
                for (s, _) in &cur {
                    if !answered.contains(s) {
                        ever_unanswered.insert(*s);
                    }
                }
                prev = cur.iter().map(|x| x.0).collect();
                cur.clear();
                answered.clear();
                st.advance_round(TimeToLive(1));
                let mut peek = st.clone();
                if peek.round_has_capacity() {
                    let next = peek.next_probe(now).sequence.0;
                    if next == c.init && before_first.is_some_and(|f| f != c.init || !prev.is_empty()) && prev.last().is_some_and(|l| l.wrapping_add(1) != next) {
                        wraps += 1;
                    }
                }
            }
            SOp::Genuine { pick, target } => {
                let awaiting: Vec<(u16, u8)> = cur.iter().copied().filter(|(s, _)| !answered.contains(s)).collect();
                if awaiting.is_empty() {
                    continue;
                }
                let (seq, ttl) = awaiting[usize::from(pick) * awaiting.len() >> 16];
                let before = snapshot(&st);
                let others_before: Vec<String> = st.probes().iter().map(|p| format!("{p:?}")).collect();
                respond(&mut st, seq, target);
                answered.push(seq);
                classes.insert("genuine");
                let idx = cur.iter().position(|x| x.0 == seq).unwrap_or(0);
                let probes = st.probes();
                vensure!(probes.len() == others_before.len(), "state:probe-count", "step {i}: a response changed the number of probes of the round");
                match &probes[idx] {
                    ProbeStatus::Complete(p) => vensure!(p.sequence.0 == seq && p.ttl.0 == ttl && p.host == host && p.received == now, "state:genuine-not-recorded", "step {i}: probe for sequence {seq} completed as {p:?}"),
                    other => vfail!("state:genuine-not-recorded", "step {i}: first response to sequence {seq} (ttl {ttl}) left the probe as {other:?}"),
                }
                for (k, p) in probes.iter().enumerate() {
                    if k != idx {
                        vensure!(format!("{p:?}") == others_before[k], "state:other-probe-changed", "step {i}: response to sequence {seq} changed probe #{k}");
                    }
                }
                vensure!(st.received_time() == Some(now), "state:received-time", "step {i}: received_time {:?} after a genuine response at {now:?}", st.received_time());
                vensure!(st.max_received_ttl().map(|t| t.0) == Some(before.1.unwrap_or(0).max(ttl)), "state:max-received", "step {i}: max_received_ttl {:?} after ttl {ttl} (was {:?})", st.max_received_ttl(), before.1);
                vensure!(st.target_found() == (before.3 || target), "state:target-found", "step {i}: target_found {} after a response with is_target={target} (was {})", st.target_found(), before.3);
            }
            SOp::Duplicate { pick, target } | SOp::PrevRound { pick, target } | SOp::Unsent { offset: pick, target } | SOp::Any { seq: pick, target } => {
                let (seq, label) = match op {
                    SOp::Duplicate { .. } => {
                        if answered.is_empty() {
                            continue;
                        }
                        (answered[usize::from(pick) * answered.len() >> 16], "duplicate")
                    }
                    SOp::PrevRound { .. } => {
                        if prev.is_empty() {
                            continue;
                        }
                        let s = prev[usize::from(pick) * prev.len() >> 16];
                        // a wrap may re-issue the number: then it is a sequence of this round
                        if cur.iter().any(|x| x.0 == s) {
                            continue;
                        }
                        (s, "previous-round")
                    }
                    SOp::Unsent { .. } => {
                        let next = cur.last().map_or_else(
                            || {
                                let mut peek = st.clone();
                                if peek.round_has_capacity() { peek.next_probe(now).sequence.0 } else { c.init }
                            },
                            |l| l.0.wrapping_add(1),
                        );
                        let Some(s) = next.checked_add(pick) else { continue };
                        (s, "never-sent")
                    }
                    _ => {
                        if cur.iter().any(|x| x.0 == pick) {
                            continue;
                        }
                        (pick, "arbitrary")
                    }
                };
                if label == "never-sent" && ever_unanswered.contains(&seq) {
                    stale_named += 1;
                }
                let before = snapshot(&st);
                respond(&mut st, seq, target);
                let after = snapshot(&st);
                classes.insert(label);
                vensure!(
                    before == after,
                    format!("state:{label}-changed-state"),
                    "step {i}: a {label} response naming sequence {seq} (round in progress issued {:?}..={:?}) changed the round state: probes/max-received/target-ttl/target-found/received-time/ttl before {:?} after {:?}",
                    cur.first().map(|x| x.0),
                    cur.last().map(|x| x.0),
                    (&before.1, &before.2, &before.3, &before.4, &before.5),
                    (&after.1, &after.2, &after.3, &after.4, &after.5)
                );
            }
        }
    }
    for l in &classes {
        obs.class(format!("resp:{l}"));
    }
    if wraps > 0 {
        obs.class("with-wrap");
    }
    if stale_named > 0 {
        obs.class("never-sent-names-unanswered-sequence-of-earlier-round");
    }
    if classes.len() >= 3 {
        obs.class("nontrivial");
        obs.nontrivial(&(c.init, format!("{:?}", c.regime), classes.len(), wraps, stale_named, c.ops.len(), hash64(&format!("{:?}", c.ops))));
    }
    obs.sample(json!({"init": c.init, "regime": format!("{:?}", c.regime), "ops": c.ops.len(), "wraps": wraps, "classes": classes, "stale_named": stale_named}));
    Ok(())
}

pub fn check() -> PropertyCheck {
    PropertyCheck {
        id: "C03",
        level: "exploration",
        rule: "adversarial: (configuration, world with up to 16 injected packets: extra genuine responses/duplicates, foreign trace id, other destination / port / protocol, missing Dublin marker, never-sent sequences inside and outside the 512 window, sequences before the round, unhandled ICMP types; late responses through delays beyond a round) by proptest; two-tracers: tracer B (trace id pid+i, same or other target) is run alone and every packet its shared raw socket would show is replayed into tracer A's run at the recorded instants. Oracle = ground-truth outcomes plus schedule, timing and path-length bookkeeping fed with genuine responses only. Non-trivial = at least one junk/duplicate/late/foreign packet read; distinct by (cell, classes read, round shapes)",
        assumptions: vec![
            "a forged packet naming a sequence the tracer has on the wire in the round in progress is indistinguishable from a genuine response; such cases are excluded and counted",
            "responses two or more rounds late are outside the statement (two-round separation) and excluded when they alias",
            "two tracers are run by decomposition (B alone, then A with B's traffic replayed), not concurrently",
        ],
        subs: vec![
            Box::new(Pbt {
                name: "adversarial",
                quick: 100_000,
                thorough: 3_000_000,
                strat: adv_strat,
                test: adv_test,
                max_shrink: 3000,
            }),
            Box::new(Pbt {
                name: "state-history",
                quick: 60_000,
                thorough: 2_000_000,
                strat: state_strat,
                test: state_test,
                max_shrink: 4000,
            }),
            Box::new(Pbt {
                name: "two-tracers",
                quick: 50_000,
                thorough: 1_000_000,
                strat: two_strat,
                test: two_test,
                max_shrink: 2000,
            }),
        ],
    }
}
