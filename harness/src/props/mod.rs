//! One module per property: generator, oracle, non-trivial rule.

use crate::engine::PropertyCheck;
use crate::simnet::{TraceCfg, WorldSpec};
use serde::{Deserialize, Serialize};

pub mod c01;
pub mod c02;
pub mod c03;
pub mod c04;
pub mod c05;
pub mod c06;
pub mod c07;
pub mod c08;
pub mod c09;
pub mod c10;
pub mod c11;
pub mod c12;
pub mod c13;
pub mod c14;
pub mod c15;
pub mod c16;
pub mod c17;
pub mod c18;
pub mod c19;
pub mod c20;
pub mod e2e;

#[derive(Clone, Debug, Serialize, Deserialize)]
pub struct SimCase {
    pub cfg: TraceCfg,
    pub world: WorldSpec,
}

pub fn sim_case(opts: &crate::simnet::gen::GenOpts) -> proptest::strategy::BoxedStrategy<SimCase> {
    use proptest::strategy::Strategy;
    crate::simnet::gen::case_strat(opts)
        .prop_map(|(cfg, world)| SimCase { cfg, world })
        .boxed()
}

pub fn all() -> Vec<PropertyCheck> {
    vec![c01::check(), c02::check(), c03::check(), c04::check(), c05::check(), c06::check(), c07::check(), c08::check(), c09::check(), c10::check(), c11::check(), c12::check(), c13::check(), c14::check(), c15::check(), c16::check(), c17::check(), c18::check(), c19::check(), c20::check()]
}

pub fn by_id(id: &str) -> Option<PropertyCheck> {
    all().into_iter().find(|p| p.id == id)
}
