//! One module per property: generator, oracle, non-trivial rule.

use crate::engine::PropertyCheck;
use crate::simnet::{TraceCfg, WorldSpec};
use serde::{Deserialize, Serialize};

pub mod c01;
pub mod c02;
pub mod c03;
pub mod c04;
pub mod c05;
pub mod c06;
pub mod c07;
pub mod c08;
pub mod c09;
pub mod c10;
pub mod c11;
pub mod c12;
pub mod c13;
pub mod c14;
pub mod c15;
pub mod c16;
pub mod c17;
pub mod c18;
pub mod c19;
pub mod c20;
pub mod e2e;

#[derive(Clone, Debug, Serialize, Deserialize)]
pub struct SimCase {
    pub cfg: TraceCfg,
    pub world: WorldSpec,
}

pub fn sim_case(opts: &crate::simnet::gen::GenOpts) -> proptest::strategy::BoxedStrategy<SimCase> {
    use proptest::strategy::Strategy;
    crate::simnet::gen::case_strat(opts)
        .prop_map(|(cfg, world)| SimCase { cfg, world })
        .boxed()
}

pub fn all() -> Vec<PropertyCheck> {
    vec![c01::check(), c02::check(), c03::check(), c04::check(), c05::check(), c06::check(), c07::check(), c08::check(), c09::check(), c10::check(), c11::check(), c12::check(), c13::check(), c14::check(), c15::check(), c16::check(), c17::check(), c18::check(), c19::check(), c20::check()]
}

pub fn by_id(id: &str) -> Option<PropertyCheck> {
    all().into_iter().find(|p| p.id == id)
}

/// Coverage-guided companions: (sub-check, executions in the thorough tier, octets of generator
/// randomness under the fuzzer's control).  C20 has none: its schedules are not a function of
/// the input.
pub fn guided_for(id: &str) -> Vec<crate::engine::GuidedSpec> {
    let t: &[(&str, u64, u32)] = match id {
        "C01" => &[("e2e-outcomes", 2_000_000, 4096), ("e2e-faults", 1_000_000, 4096)],
        "C02" => &[("identity-e2e", 2_000_000, 4096), ("identity-faults", 1_000_000, 4096), ("tcp-channel", 500_000, 4096)],
        "C03" => &[("adversarial", 2_000_000, 4096), ("state-history", 1_000_000, 4096)],
        "C04" => &[("view-pbt", 3_000_000, 2048), ("recv-corrupt", 2_000_000, 4096)],
        "C05" => &[("synthetic", 2_000_000, 8192)],
        "C06" => &[("schedule", 2_000_000, 4096), ("schedule-faults", 1_000_000, 4096)],
        "C07" => &[("history", 1_000_000, 4096), ("tcp-storm", 100_000, 4096)],
        "C08" => &[("timing", 2_000_000, 4096), ("timing-faults", 1_000_000, 4096)],
        "C09" => &[("fault-scripts-random", 2_000_000, 4096)],
        "C10" => &[("table-e2e", 1_000_000, 4096), ("table-faults", 1_000_000, 4096), ("synthetic", 2_000_000, 4096)],
        "C11" => &[("wire-e2e", 2_000_000, 4096)],
        "C12" => &[("field-pbt", 2_000_000, 1024)],
        "C13" => &[("differential", 2_000_000, 4096)],
        "C14" => &[("roundtrip", 2_000_000, 4096), ("corruption", 3_000_000, 4096)],
        "C15" => &[("flows", 2_000_000, 8192), ("flows-wide", 500_000, 8192)],
        "C16" => &[("builder", 2_000_000, 1024), ("cli-run", 1_000_000, 1024), ("layering", 300_000, 4096)],
        "C17" => &[("ui-ops", 150_000, 4096), ("ui-nav", 150_000, 4096), ("ui-settings", 100_000, 4096)],
        "C18" => &[("privacy", 20_000, 4096)],
        "C19" => &[("nat-e2e", 1_000_000, 4096), ("synthetic", 2_000_000, 4096)],
        _ => &[],
    };
    t.iter().map(|&(sub, runs, max_len)| crate::engine::GuidedSpec { sub, runs, max_len }).collect()
}
