//! C01 Every reported probe outcome matches what the network actually did.

use super::{sim_case, SimCase};
use crate::engine::*;
use crate::oracle::{self, Expected};
use crate::simnet::gen::GenOpts;
use crate::simnet::*;
use crate::{vensure, vfail};
use proptest::strategy::BoxedStrategy;
use serde_json::json;
use std::collections::BTreeMap;

fn opts() -> GenOpts {
    GenOpts {
        injections: true,
        nat: true,
        supported_only: true,
        sending_only: true,
        ..GenOpts::default()
    }
}

fn strat() -> BoxedStrategy<SimCase> {
    sim_case(&opts())
}

/// The shared end-to-end oracle: every published round equals the ground truth; the snapshot's
/// per-hop totals are the sums of those outcomes.  Returns the truth for further checks.
pub fn check_outcomes(log: &RunLog, obs: &mut Obs) -> Result<Option<oracle::Truth>, Fail> {
    check_outcomes_from(log, obs, 0)
}

/// As `check_outcomes`; the snapshot totals are the sums over the rounds from `from` on (the
/// state was cleared right after round `from - 1` was applied).
pub fn check_outcomes_from(log: &RunLog, obs: &mut Obs, from: usize) -> Result<Option<oracle::Truth>, Fail> {
    let Some(truth) = super::e2e::prepare(log, obs)? else {
        return Ok(None);
    };
    vensure!(
        truth.rounds.len() == log.rounds.len(),
        "round-count",
        "published {} rounds, ground truth has {}",
        log.rounds.len(),
        truth.rounds.len()
    );
    for (k, (pubd, exp)) in log.rounds.iter().zip(&truth.rounds).enumerate() {
        if pubd.probes.len() != exp.len() {
            vfail!(
                "probe-count",
                "round {k}: published {} probes [{}] but {} were dispatched [{}]",
                pubd.probes.len(),
                pubd.probes.iter().map(oracle::status_short).collect::<Vec<_>>().join(" "),
                exp.len(),
                exp.iter().map(Expected::short).collect::<Vec<_>>().join(" ")
            );
        }
        for (i, (g, e)) in pubd.probes.iter().zip(exp).enumerate() {
            if let Err(m) = oracle::compare_status(k, i, g, e) {
                let clause = if m.contains("rtt differs") {
                    "rtt"
                } else if m.contains("status differs") {
                    "status"
                } else {
                    "field"
                };
                vfail!(format!("outcome-{clause}"), "{m}");
            }
        }
    }
    // snapshot totals
    if let Some(state) = &log.snapshot {
        let mut sent: BTreeMap<u8, usize> = BTreeMap::new();
        let mut recv: BTreeMap<u8, usize> = BTreeMap::new();
        let mut failed: BTreeMap<u8, usize> = BTreeMap::new();
        let mut by_host: BTreeMap<(u8, std::net::IpAddr), usize> = BTreeMap::new();
        for (k, r) in truth.rounds.iter().enumerate().skip(from) {
            for (i, e) in r.iter().enumerate() {
                let ttl_of_failed = || log.sends[truth.round_sends[k][i]].wire.as_ref().map(|w| w.ttl);
                match e {
                    Expected::Complete { ttl, host, .. } => {
                        *sent.entry(*ttl).or_default() += 1;
                        *recv.entry(*ttl).or_default() += 1;
                        *by_host.entry((*ttl, *host)).or_default() += 1;
                    }
                    Expected::Awaited { ttl, .. } => {
                        *sent.entry(*ttl).or_default() += 1;
                    }
                    Expected::Failed { .. } => {
                        // the TTL of a probe that never reached the wire is taken from the
                        // published status (checked against the schedule by C06)
                        let ttl = ttl_of_failed().or_else(|| match &log.rounds[k].probes[i] {
                            trippy_core::ProbeStatus::Failed(f) => Some(f.ttl.0),
                            _ => None,
                        });
                        if let Some(t) = ttl {
                            *sent.entry(t).or_default() += 1;
                            *failed.entry(t).or_default() += 1;
                        }
                    }
                    Expected::Skipped => {}
                }
            }
        }
        let hops = catch(|| state.hops().to_vec()).map_err(|p| Fail::new(panic_sig(&p), format!("State::hops panicked: {p}")))?;
        for h in &hops {
            let t = h.ttl();
            let (s, r, f) = (
                sent.get(&t).copied().unwrap_or(0),
                recv.get(&t).copied().unwrap_or(0),
                failed.get(&t).copied().unwrap_or(0),
            );
            // a hop inside the table that was never probed keeps ttl 0
            if t == 0 {
                continue;
            }
            vensure!(
                h.total_sent() == s && h.total_recv() == r && h.total_failed() == f,
                "snapshot-totals",
                "hop ttl {t}: snapshot sent/recv/failed {}/{}/{} but outcomes sum to {s}/{r}/{f}",
                h.total_sent(),
                h.total_recv(),
                h.total_failed()
            );
            // ... and so are the totals per responder
            let want: BTreeMap<std::net::IpAddr, usize> = by_host.iter().filter(|((ttl, _), _)| *ttl == t).map(|((_, a), n)| (*a, *n)).collect();
            let got: BTreeMap<std::net::IpAddr, usize> = h.addrs_with_counts().map(|(a, n)| (*a, *n)).collect();
            vensure!(got == want, "snapshot-responder-totals", "hop ttl {t}: responses per responder {got:?} but the outcomes sum to {want:?}");
        }
    }
    Ok(Some(truth))
}

fn classify(c: &SimCase, log: &RunLog, truth: &oracle::Truth, obs: &mut Obs) {
    obs.class(format!("cell:{}", c.cfg.cell()));
    let completes = truth.rounds.iter().flatten().filter(|e| matches!(e, Expected::Complete { .. })).count();
    let awaited = truth.rounds.iter().flatten().filter(|e| matches!(e, Expected::Awaited { .. })).count();
    if truth.dup_read > 0 {
        obs.class("dup-read");
    }
    if truth.late_read > 0 {
        obs.class("late-read");
    }
    if !truth.junk_read.is_empty() {
        obs.class("junk-read");
    }
    if truth.interleaved {
        obs.class("interleaved");
    }
    if c.world.paths.len() > 1 {
        obs.class("ecmp");
    }
    if log.sends.is_empty() {
        obs.class("nothing-sent");
    }
    if truth.rounds.len() >= 2 && completes >= 1 && awaited >= 1 {
        let sig: Vec<String> = truth
            .rounds
            .iter()
            .map(|r| r.iter().map(Expected::short).collect::<Vec<_>>().join(","))
            .collect();
        let mut sorted = sig.clone();
        sorted.sort();
        obs.nontrivial(&(c.cfg.cell(), sorted));
        obs.class("nontrivial");
    }
}

fn test(c: &SimCase, obs: &mut Obs) -> CheckResult {
    let log = run_trace(&c.cfg, &c.world);
    let Some(truth) = check_outcomes(&log, obs)? else {
        return Ok(());
    };
    // the run itself must succeed (no faults are scripted here)
    match &log.result {
        Some(Ok(())) => {
            vensure!(
                log.rounds.len() == c.cfg.max_rounds as usize,
                "rounds-published",
                "run returned Ok after {} rounds, {} requested",
                log.rounds.len(),
                c.cfg.max_rounds
            );
        }
        Some(Err(e)) => {
            // error values are legitimate for out-of-range packet sizes only
            vfail!("run-error", "run failed without any scripted fault: {e}");
        }
        None => {}
    }
    classify(c, &log, &truth, obs);
    obs.sample(json!({
        "cfg": c.cfg.cell(),
        "rounds": truth.rounds.iter().map(|r| r.iter().map(Expected::short).collect::<Vec<_>>().join(" ")).collect::<Vec<_>>(),
        "paths": c.world.paths.iter().map(|p| p.hops.len()).collect::<Vec<_>>(),
    }));
    Ok(())
}

/// The same outcome oracle on runs with scripted socket faults (failed sends, TCP address-in-use
/// re-issues, late fatal errors): Failed / Skipped entries inside rounds.
fn faults_test(c: &SimCase, obs: &mut Obs) -> CheckResult {
    let log = run_trace(&c.cfg, &c.world);
    let Some(truth) = check_outcomes(&log, obs)? else {
        return Ok(());
    };
    let gaps = truth.rounds.iter().flatten().filter(|e| matches!(e, Expected::Skipped | Expected::Failed { .. })).count();
    if gaps > 0 && truth.rounds.iter().flatten().any(|e| matches!(e, Expected::Complete { .. })) {
        obs.class("nontrivial");
        obs.nontrivial(&(c.cfg.cell(), gaps, truth.rounds.iter().map(Vec::len).collect::<Vec<_>>()));
    }
    obs.sample(json!({"cfg": c.cfg.cell(), "failed_or_skipped": gaps}));
    Ok(())
}

/// A session whose data is cleared in mid-run (the TUI's clear-trace-data command, here issued
/// from the publish callback right after round `clear_after` was applied): the published rounds
/// are judged as ever, the snapshot totals are the sums over the rounds since the clear.
#[derive(Clone, Debug, serde::Serialize, serde::Deserialize)]
pub struct ClearCase {
    pub sim: SimCase,
    pub clear_after: u8,
}

fn clear_strat() -> BoxedStrategy<ClearCase> {
    use proptest::prelude::*;
    (sim_case(&GenOpts { rounds: (2, 8), ..opts() }), 0u8..=6).prop_map(|(sim, clear_after)| ClearCase { sim, clear_after }).boxed()
}

fn clear_test(c: &ClearCase, obs: &mut Obs) -> CheckResult {
    let tracer = match c.sim.cfg.build() {
        Ok(t) => t,
        Err(_) => {
            obs.excluded("builder-rejected");
            return Ok(());
        }
    };
    let published = std::cell::Cell::new(0usize);
    let cleared_at = std::cell::Cell::new(None);
    let handle = tracer.clone();
    let log = run_shared(tracer, &c.sim.cfg, &c.sim.world, |_| {
        let k = published.get();
        if k == usize::from(c.clear_after) {
            handle.clear();
            cleared_at.set(Some(k));
        }
        published.set(k + 1);
    });
    let from = cleared_at.get().map_or(0, |k| k + 1);
    if check_outcomes_from(&log, obs, from)?.is_none() {
        return Ok(());
    }
    if cleared_at.get().is_some() && log.rounds.len() > from {
        obs.class("rounds-after-clear");
        obs.nontrivial(&(c.sim.cfg.cell(), c.clear_after, log.rounds.len(), log.sends.len()));
    }
    Ok(())
}

pub fn check() -> PropertyCheck {
    PropertyCheck {
        id: "C01",
        level: "exploration",
        rule: "cases = (builder-accepted tracer configuration, simulated world) drawn by proptest; the real Builder/Channel/Strategy/State run over the simulated Socket on a virtual clock; non-trivial = at least 2 published rounds with at least one completed and one awaited probe; distinct by (configuration cell, multiset of per-round outcome strings)",
        assumptions: vec![
            "SimSocket models the socket layer (platform code is not exercised)",
            "ground truth is what the world delivered and the tracer read, decoded by the independent wire codec",
            "TracerInner::run_internal is mirrored by verif_run_with_socket (source address discovery and privilege drop omitted)",
        ],
        subs: vec![Box::new(Pbt {
            name: "e2e-outcomes",
            quick: 80_000,
            thorough: 4_000_000,
            strat,
            test,
            max_shrink: 4000,
        }),
        Box::new(Pbt {
            name: "e2e-faults",
            quick: 40_000,
            thorough: 1_500_000,
            strat: super::c10::fault_strat,
            test: faults_test,
            max_shrink: 4000,
        }),
        Box::new(Pbt {
            name: "e2e-clear",
            quick: 30_000,
            thorough: 1_000_000,
            strat: clear_strat,
            test: clear_test,
            max_shrink: 3000,
        })],
    }
}
