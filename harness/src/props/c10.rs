//! C10 The hop table covers exactly the probed path and ends at the target.

use super::{e2e, sim_case, SimCase};
use crate::engine::*;
use crate::simnet::gen::GenOpts;
use crate::simnet::*;
use proptest::strategy::BoxedStrategy;
use serde_json::json;

fn strat() -> BoxedStrategy<SimCase> {
    sim_case(&GenOpts {
        supported_only: true,
        sending_only: true,
        ..GenOpts::default()
    })
}

fn test(c: &SimCase, obs: &mut Obs) -> CheckResult {
    let log = run_trace(&c.cfg, &c.world);
    let Some(truth) = e2e::prepare(&log, obs)? else {
        return Ok(());
    };
    e2e::check_table(&log, &truth, obs)?;
    obs.sample(json!({
        "first_ttl": c.cfg.first_ttl, "max_ttl": c.cfg.max_ttl,
        "path_lens": c.world.paths.iter().map(|p| p.hops.len() + 1).collect::<Vec<_>>(),
        "largest_ttl": log.rounds.iter().map(|r| r.largest_ttl).collect::<Vec<_>>(),
        "hops": log.tables.last().and_then(|t| t.as_ref().ok()).map(|t| t.hop_ttls.clone()),
    }));
    Ok(())
}

pub fn check() -> PropertyCheck {
    PropertyCheck {
        id: "C10",
        level: "exploration",
        rule: "cases = (configuration, world) by proptest, the table is read through the public State accessors after every published round; oracle = gap-free TTL run [lowest probed .. greatest path length], target hop = latest path length, true distance when a stable single path's target answered the ttl=distance probe, empty when nothing ever answered; non-trivial = >= 2 rounds with at least one answer; distinct by (first-ttl, lowest, highest, per-round path lengths, #paths)",
        assumptions: vec!["SimSocket models the socket layer"],
        subs: vec![Box::new(Pbt {
            name: "table-e2e",
            quick: 120_000,
            thorough: 2_000_000,
            strat,
            test,
            max_shrink: 3000,
        })],
    }
}
