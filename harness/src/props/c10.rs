//! C10 The hop table covers exactly the probed path and ends at the target.

use super::{c05, c09, e2e, sim_case, SimCase};
use crate::simnet::run::summarize;
use crate::{vensure, vfail};
use crate::engine::*;
use crate::simnet::gen::GenOpts;
use crate::simnet::*;
use proptest::prelude::*;
use proptest::strategy::BoxedStrategy;
use serde_json::json;

fn strat() -> BoxedStrategy<SimCase> {
    sim_case(&GenOpts {
        supported_only: true,
        sending_only: true,
        ..GenOpts::default()
    })
}

fn test(c: &SimCase, obs: &mut Obs) -> CheckResult {
    let log = run_trace(&c.cfg, &c.world);
    let Some(truth) = e2e::prepare(&log, obs)? else {
        return Ok(());
    };
    e2e::check_table(&log, &truth, obs)?;
    obs.sample(json!({
        "first_ttl": c.cfg.first_ttl, "max_ttl": c.cfg.max_ttl,
        "path_lens": c.world.paths.iter().map(|p| p.hops.len() + 1).collect::<Vec<_>>(),
        "largest_ttl": log.rounds.iter().map(|r| r.largest_ttl).collect::<Vec<_>>(),
        "hops": log.tables.last().and_then(|t| t.as_ref().ok()).map(|t| t.hop_ttls.clone()),
    }));
    Ok(())
}

// ---------------------------------------------------------------------------------------------
// the same oracle on runs with socket faults: failed sends and TCP address-in-use re-issues put
// Failed / Skipped entries anywhere in a round, including in its first slot

pub fn fault_strat() -> BoxedStrategy<SimCase> {
    sim_case(&GenOpts {
        supported_only: true,
        sending_only: true,
        max_hops: 10,
        long_path_pct: 0,
        rounds: (1, 5),
        ..GenOpts::default()
    })
    .prop_flat_map(|c| {
        let stages = c09::send_stages(&c.cfg);
        let cfg = c.cfg.clone();
        let one = (proptest::sample::select(stages), prop_oneof![2 => 0u16..=3, 2 => 0u16..=40], proptest::sample::select(c09::ERRNOS.to_vec()), prop_oneof![3 => Just(0u16), 1 => 1u16..=6])
            .prop_filter_map("fatal faults end the run before anything is published", move |(stage, nth, errno, repeat)| {
                let class = c09::classify_fault(&cfg, stage, errno);
                (class != c09::FaultClass::Fatal || nth >= 3).then_some(FaultSpec { stage, nth, errno, repeat })
            });
        (Just(c), proptest::collection::vec(one, 1..=4))
    })
    .prop_map(|(mut c, f)| {
        c.world.faults = f;
        c
    })
    .boxed()
}

fn fault_test(c: &SimCase, obs: &mut Obs) -> CheckResult {
    let log = run_trace(&c.cfg, &c.world);
    let Some(truth) = e2e::prepare(&log, obs)? else {
        return Ok(());
    };
    e2e::check_table(&log, &truth, &mut Obs::default())?;
    let first_slot_gap = truth.rounds.iter().any(|r| matches!(r.first(), Some(crate::oracle::Expected::Skipped | crate::oracle::Expected::Failed { .. })));
    let any_gap = truth.rounds.iter().flatten().any(|e| matches!(e, crate::oracle::Expected::Skipped | crate::oracle::Expected::Failed { .. }));
    if first_slot_gap {
        obs.class("first-slot-skipped-or-failed");
    }
    if any_gap && !log.rounds.is_empty() {
        obs.class("nontrivial");
        let shape: Vec<(usize, u8)> = log.rounds.iter().map(|r| (r.probes.len(), r.largest_ttl)).collect();
        obs.nontrivial(&(c.cfg.cell(), c.cfg.first_ttl, first_slot_gap, shape));
    }
    obs.sample(json!({
        "cfg": c.cfg.cell(), "first_ttl": c.cfg.first_ttl,
        "faults": c.world.faults.iter().map(|f| format!("{:?}#{}+{} errno {}", f.stage, f.nth, f.repeat, f.errno)).collect::<Vec<_>>(),
        "largest_ttl": log.rounds.iter().map(|r| r.largest_ttl).collect::<Vec<_>>(),
        "hops": log.tables.last().and_then(|t| t.as_ref().ok()).map(|t| t.hop_ttls.clone()),
    }));
    Ok(())
}

// ---------------------------------------------------------------------------------------------
// synthetic round sequences applied to `State` directly

fn syn_strat() -> BoxedStrategy<c05::History> {
    c05::history_strat(c05::HistOpts { max_rounds: 12, max_probes: 10, hosts_per_hop: 2, max_flows: (1, 8), ..c05::HistOpts::default() })
}

fn syn_test(h: &c05::History, obs: &mut Obs) -> CheckResult {
    let mut lowest = 0u8;
    let mut highest = 0u8;
    let mut probed = [false; 256];
    let mut leading_gap = false;
    // rounds attributed to each registered flow, observed through the flows' round counters
    let mut flow_rounds: std::collections::BTreeMap<u64, Vec<usize>> = std::collections::BTreeMap::new();
    let mut after = |k: usize, b: &c05::BuiltRound, state: &trippy_core::State| -> CheckResult {
        for (_, id) in state.flows() {
            let e = flow_rounds.entry(id.0).or_default();
            if state.round_count(*id) > e.len() {
                e.push(k);
            }
        }
        for p in &b.probes {
            let ttl = match p {
                trippy_core::ProbeStatus::Awaited(a) => Some(a.ttl.0),
                trippy_core::ProbeStatus::Complete(a) => Some(a.ttl.0),
                trippy_core::ProbeStatus::Failed(a) => Some(a.ttl.0),
                _ => None,
            };
            if let Some(t) = ttl {
                probed[usize::from(t)] = true;
                lowest = if lowest == 0 { t } else { lowest.min(t) };
            }
        }
        if matches!(b.probes.first(), Some(trippy_core::ProbeStatus::Skipped)) && b.probes.len() > 1 {
            leading_gap = true;
        }
        highest = highest.max(b.largest_ttl);
        let table = match catch(|| summarize(state)) {
            Ok(t) => t,
            Err(p) => vfail!(panic_sig(&p), "querying the hop table after round {k} panicked: {p}"),
        };
        let expect: Vec<u8> = if lowest == 0 || highest == 0 { vec![] } else { (lowest..=highest).map(|t| if probed[usize::from(t)] { t } else { 0 }).collect() };
        vensure!(table.hop_ttls == expect, "hop-run", "after round {k}: hops() carries ttls {:?}, expected the run {lowest}..={highest} = {expect:?}", table.hop_ttls);
        if b.largest_ttl > 0 {
            vensure!(table.target_hop_ttl == b.largest_ttl, "target-hop", "after round {k}: target_hop().ttl() = {} but the round's path length is {}", table.target_hop_ttl, b.largest_ttl);
            vensure!(table.is_target_ttls == vec![b.largest_ttl], "is-target", "after round {k}: is_target() holds for {:?}, expected only {}", table.is_target_ttls, b.largest_ttl);
        } else {
            vensure!(table.is_target_ttls.is_empty(), "is-target", "after round {k}: path length 0 but is_target() holds for {:?}", table.is_target_ttls);
        }
        let in_round: Vec<u8> = expect.iter().copied().filter(|t| *t != 0 && *t <= b.largest_ttl).collect();
        let got_in_round: Vec<u8> = table.in_round_ttls.iter().copied().filter(|t| *t != 0).collect();
        vensure!(got_in_round == in_round, "in-round", "after round {k}: is_in_round() holds for {got_in_round:?}, expected {in_round:?}");
        vensure!(table.round_count == k + 1, "round-count", "after round {k}: round_count(default flow) = {}", table.round_count);
        Ok(())
    };
    // before any round: empty, and querying does not fail
    {
        let state = trippy_core::State::new(trippy_core::verif::StateConfig { max_samples: h.max_samples, max_flows: h.max_flows });
        match catch(|| summarize(&state)) {
            Ok(t) => vensure!(t.hop_ttls.is_empty() && t.round_count == 0, "fresh-not-empty", "a fresh table has hops {:?}", t.hop_ttls),
            Err(p) => vfail!(panic_sig(&p), "querying a fresh hop table panicked: {p}"),
        }
    }
    let (state, built) = c05::apply_history(h, &mut after)?;
    // the per-flow tables (what the flows view and the flows report show) obey the same rule over
    // the rounds attributed to the flow
    for (_, id) in state.flows() {
        let rounds: Vec<&c05::BuiltRound> = flow_rounds.get(&id.0).map(|v| v.iter().map(|k| &built[*k]).collect()).unwrap_or_default();
        let (mut lo, mut hi, mut seen) = (0u8, 0u8, [false; 256]);
        for b in &rounds {
            for p in &b.probes {
                let ttl = match p {
                    trippy_core::ProbeStatus::Awaited(a) => Some(a.ttl.0),
                    trippy_core::ProbeStatus::Complete(a) => Some(a.ttl.0),
                    trippy_core::ProbeStatus::Failed(a) => Some(a.ttl.0),
                    _ => None,
                };
                if let Some(t) = ttl {
                    seen[usize::from(t)] = true;
                    lo = if lo == 0 { t } else { lo.min(t) };
                }
            }
            hi = hi.max(b.largest_ttl);
        }
        let expect: Vec<u8> = if lo == 0 || hi == 0 { vec![] } else { (lo..=hi).map(|t| if seen[usize::from(t)] { t } else { 0 }).collect() };
        let got: Vec<u8> = match catch(|| state.hops_for_flow(*id).iter().map(trippy_core::Hop::ttl).collect::<Vec<u8>>()) {
            Ok(v) => v,
            Err(p) => vfail!(panic_sig(&p), "hops_for_flow({}) panicked: {p}", id.0),
        };
        vensure!(got == expect, "flow-hop-run", "flow {}: hops_for_flow carries ttls {got:?}, the rounds attributed to it {:?} give the run {lo}..={hi} = {expect:?}", id.0, flow_rounds.get(&id.0));
        if let Some(last) = rounds.last() {
            if last.largest_ttl > 0 {
                let t = catch(|| state.target_hop(*id).ttl()).map_err(|p| Fail::new(panic_sig(&p), format!("target_hop({}) panicked: {p}", id.0)))?;
                vensure!(t == last.largest_ttl, "flow-target-hop", "flow {}: target_hop().ttl() = {t} but the latest round attributed to it reported path length {}", id.0, last.largest_ttl);
            }
            let l = last.largest_ttl;
            let (is_t, in_r): (Vec<u8>, Vec<u8>) = catch(|| {
                let hops = state.hops_for_flow(*id);
                (
                    hops.iter().filter(|h| state.is_target(h, *id)).map(trippy_core::Hop::ttl).collect(),
                    hops.iter().filter(|h| h.ttl() != 0 && state.is_in_round(h, *id)).map(trippy_core::Hop::ttl).collect(),
                )
            })
            .map_err(|p| Fail::new(panic_sig(&p), format!("is_target / is_in_round for flow {} panicked: {p}", id.0)))?;
            let want_t: Vec<u8> = if l > 0 { vec![l] } else { vec![] };
            let want_r: Vec<u8> = expect.iter().copied().filter(|t| *t != 0 && *t <= l).collect();
            vensure!(is_t == want_t, "flow-is-target", "flow {}: is_target() holds for {is_t:?}, expected {want_t:?}", id.0);
            vensure!(in_r == want_r, "flow-in-round", "flow {}: is_in_round() holds for {in_r:?}, expected {want_r:?}", id.0);
        }
        if rounds.len() >= 2 {
            obs.class("flow-with-several-rounds");
        }
    }
    if h.rounds.len() >= 2 && highest > 0 {
        obs.class("nontrivial");
        if leading_gap {
            obs.class("leading-skipped");
        }
        if h.first_ttl > 1 {
            obs.class("first-ttl>1");
        }
        obs.nontrivial(&serde_json::to_string(h).unwrap_or_default());
    }
    obs.sample(json!({"first_ttl": h.first_ttl, "rounds": h.rounds.len(), "lowest": lowest, "highest": highest}));
    Ok(())
}

pub fn check() -> PropertyCheck {
    PropertyCheck {
        id: "C10",
        level: "exploration",
        rule: "table-e2e / table-faults: cases = (configuration, world[, 1..4 socket faults: failed sends, TCP address-in-use re-issues, late fatal errors]) by proptest, the table is read through the public State accessors after every published round; synthetic: generated round sequences (Complete / Awaited / Failed / Skipped entries in any position, first-ttl 1..254, reported path length 0 or a probed TTL) applied to State directly. Oracle = gap-free TTL run [lowest probed .. greatest path length], target hop = latest path length, true distance when a stable single path's target answered the ttl=distance probe, empty when nothing ever answered, no query panics (also on a fresh table); synthetic: the same run / target rule for every registered flow over the rounds attributed to it. Non-trivial = >= 2 rounds with at least one answer (e2e), a Failed/Skipped entry in a published round (faults); distinct by (first-ttl, lowest, highest, per-round path lengths, #paths) / whole history",
        assumptions: vec!["SimSocket models the socket layer", "synthetic rounds report 0 or a TTL probed in that round as path length, as the strategy does"],
        subs: vec![
            Box::new(Pbt {
                name: "table-e2e",
                quick: 120_000,
                thorough: 2_000_000,
                strat,
                test,
                max_shrink: 3000,
            }),
            Box::new(Pbt {
                name: "table-faults",
                quick: 60_000,
                thorough: 1_000_000,
                strat: fault_strat,
                test: fault_test,
                max_shrink: 3000,
            }),
            Box::new(Pbt {
                name: "synthetic",
                quick: 60_000,
                thorough: 1_500_000,
                strat: syn_strat,
                test: syn_test,
                max_shrink: 3000,
            }),
        ],
    }
}
