//! C19 NAT is flagged at the first hop that sees a rewritten datagram.

use super::{e2e, sim_case, SimCase};
use crate::engine::*;
use crate::oracle::Expected;
use crate::simnet::gen::GenOpts;
use crate::simnet::*;
use crate::{vensure, vfail};
use proptest::strategy::BoxedStrategy;
use serde_json::json;
use std::collections::BTreeMap;

fn strat() -> BoxedStrategy<SimCase> {
    use proptest::prelude::*;
    (base_strat(), 0u8..10, 1024u16..60000)
        .prop_map(|(mut c, r, port)| {
            // 70% of the cases are forced into the only cell where NAT detection applies
            if r < 7 {
                c.cfg.v6 = false;
                c.cfg.protocol = Proto::Udp;
                c.cfg.strategy = Strat::Dublin;
                c.cfg.privileged = true;
                if matches!(c.cfg.ports, Ports::None) {
                    c.cfg.ports = Ports::FixedSrc(port);
                }
            }
            c
        })
        .boxed()
}

fn base_strat() -> BoxedStrategy<SimCase> {
    sim_case(&GenOpts {
        supported_only: true,
        sending_only: true,
        nat: true,
        protocols: vec![Proto::Udp, Proto::Udp, Proto::Udp, Proto::Icmp, Proto::Tcp],
        max_hops: 20,
        long_path_pct: 0,
        rounds: (1, 5),
        ..GenOpts::default()
    })
}

fn test(c: &SimCase, obs: &mut Obs) -> CheckResult {
    let log = run_trace(&c.cfg, &c.world);
    let Some(truth) = e2e::prepare(&log, obs)? else {
        return Ok(());
    };
    let applicable = c.cfg.protocol == Proto::Udp && c.cfg.strategy == Strat::Dublin && !c.cfg.v6;
    // expected last status per ttl, carried across rounds
    let mut want: BTreeMap<u8, u8> = BTreeMap::new();
    let mut detections = 0usize;
    let mut responders = 0usize;
    for (k, r) in truth.rounds.iter().enumerate() {
        let mut prev: Option<u16> = None;
        for e in r {
            if let Expected::Complete { ttl, quoted_udp_cksum, sent_udp_cksum, .. } = e {
                if !applicable {
                    continue;
                }
                let (Some(q), Some(s)) = (quoted_udp_cksum, sent_udp_cksum) else {
                    vfail!("no-checksum", "round {k} ttl {ttl}: a Dublin/IPv4 response without a quoted UDP checksum");
                };
                responders += 1;
                let reference = prev.unwrap_or(*s);
                let detected = *q != reference;
                if detected {
                    detections += 1;
                }
                want.insert(*ttl, if detected { 2 } else { 1 });
                prev = Some(*q);
            }
        }
        let table = match &log.tables[k] {
            Ok(t) => t,
            Err(p) => vfail!(panic_sig(p), "querying the hop table after round {k} panicked: {p}"),
        };
        for (ttl, got) in &table.nat {
            if *ttl == 0 {
                continue;
            }
            let w = want.get(ttl).copied().unwrap_or(0);
            let name = |x: u8| ["not-applicable", "not-detected", "detected"][usize::from(x)];
            vensure!(
                *got == w,
                if applicable { "nat-status" } else { "nat-not-applicable" },
                "round {k} hop ttl {ttl}: last_nat_status = {}, expected {} (nats on path: {:?})",
                name(*got),
                name(w),
                c.world.paths.iter().map(|p| p.nats.iter().map(|n| (n.at, n.inclusive)).collect::<Vec<_>>()).collect::<Vec<_>>()
            );
        }
    }
    let n_nats: usize = c.world.paths.iter().map(|p| p.nats.len()).sum();
    obs.class(if applicable { "dublin-ipv4" } else { "negative-control" });
    if applicable {
        obs.class(format!("nats:{}", n_nats.min(3)));
        if detections > 0 {
            obs.class("detected");
        }
        if responders >= 2 {
            obs.class("nontrivial");
            let shape: Vec<(u8, u8)> = want.iter().map(|(a, b)| (*a, *b)).collect();
            obs.nontrivial(&(shape, n_nats, c.cfg.packet_size, c.cfg.pattern));
        }
    }
    obs.sample(json!({
        "cfg": c.cfg.cell(),
        "nats": c.world.paths.iter().map(|p| p.nats.iter().map(|n| json!({"at": n.at, "inclusive": n.inclusive})).collect::<Vec<_>>()).collect::<Vec<_>>(),
        "expected_status_by_ttl": want,
    }));
    Ok(())
}

// ---------------------------------------------------------------------------------------------
// the rule on `State` directly: generated rounds whose completed probes carry (expected, quoted)
// UDP checksums drawn from a tiny alphabet, so that equal / different neighbours, silent hops in
// between and responders without checksums occur in every combination

fn syn_strat() -> BoxedStrategy<super::c05::History> {
    super::c05::history_strat(super::c05::HistOpts { max_rounds: 8, max_probes: 10, hosts_per_hop: 2, max_flows: (1, 4), ..super::c05::HistOpts::default() })
}

fn syn_test(h: &super::c05::History, obs: &mut Obs) -> CheckResult {
    use trippy_core::{NatStatus, ProbeStatus};
    // expected last status per ttl: 0 not applicable, 1 not detected, 2 detected
    let mut want: BTreeMap<u8, u8> = BTreeMap::new();
    let (mut detected, mut after_gap) = (0usize, 0usize);
    // rounds attributed to each registered flow, observed through the flows' round counters
    let mut flow_rounds: BTreeMap<u64, Vec<usize>> = BTreeMap::new();
    let mut after = |k: usize, b: &super::c05::BuiltRound, state: &trippy_core::State| -> CheckResult {
        for (_, id) in state.flows() {
            let e = flow_rounds.entry(id.0).or_default();
            if state.round_count(*id) > e.len() {
                e.push(k);
            }
        }
        let mut prev: Option<u16> = None;
        let mut gap_since_prev = false;
        for p in &b.probes {
            match p {
                ProbeStatus::Complete(c) => {
                    if let (Some(exp), Some(act)) = (c.expected_udp_checksum, c.actual_udp_checksum) {
                        let differs = match prev {
                            Some(q) => q != act.0,
                            None => exp.0 != act.0,
                        };
                        want.insert(c.ttl.0, if differs { 2 } else { 1 });
                        if differs {
                            detected += 1;
                        }
                        if prev.is_some() && gap_since_prev {
                            after_gap += 1;
                        }
                        prev = Some(act.0);
                        gap_since_prev = false;
                    }
                }
                ProbeStatus::Awaited(_) | ProbeStatus::Failed(_) => gap_since_prev = true,
                _ => {}
            }
        }
        for hop in state.hops() {
            if hop.ttl() == 0 {
                continue;
            }
            let got = match hop.last_nat_status() {
                NatStatus::NotApplicable => 0,
                NatStatus::NotDetected => 1,
                NatStatus::Detected => 2,
            };
            let w = want.get(&hop.ttl()).copied().unwrap_or(0);
            let name = |v: u8| ["not-applicable", "not-detected", "detected"][usize::from(v)];
            vensure!(got == w, "nat-status-synthetic", "after round {k}: hop ttl {}: last_nat_status = {}, the rule gives {}", hop.ttl(), name(got), name(w));
        }
        Ok(())
    };
    let (state, built) = super::c05::apply_history(h, &mut after)?;
    // the same rule holds for the per-flow tables (what the flows view shows): each flow's hops
    // carry the status the rule gives over exactly the rounds attributed to that flow
    for (_, id) in state.flows() {
        let rounds: Vec<&super::c05::BuiltRound> = flow_rounds.get(&id.0).map(|v| v.iter().map(|k| &built[*k]).collect()).unwrap_or_default();
        let model = super::c05::aggregate(&rounds);
        for hop in state.hops_for_flow(*id) {
            if hop.ttl() == 0 {
                continue;
            }
            let w = super::c05::model_nat(&model[usize::from(hop.ttl())]);
            vensure!(hop.last_nat_status() == w, "nat-status-flow", "flow {}: hop ttl {}: last_nat_status = {:?}, the rule over the flow's rounds {:?} gives {:?}", id.0, hop.ttl(), hop.last_nat_status(), flow_rounds.get(&id.0), w);
        }
        if rounds.len() >= 2 {
            obs.class("synthetic:flow-with-several-rounds");
        }
    }
    if detected > 0 {
        obs.class("synthetic:detected");
    }
    if after_gap > 0 {
        obs.class("synthetic:responder-after-silent-hop");
    }
    if want.len() >= 2 {
        obs.class("nontrivial");
        obs.nontrivial(&serde_json::to_string(h).unwrap_or_default());
    }
    obs.sample(json!({"rounds": h.rounds.len(), "hops_with_status": want.len(), "detected": detected}));
    Ok(())
}

pub fn check() -> PropertyCheck {
    PropertyCheck {
        id: "C19",
        level: "exploration",
        rule: "nat-e2e: cases = (UDP configuration of every strategy/family plus ICMP/TCP controls, world with 0..3 address/port rewriting devices at arbitrary distances, silent and lossy hops, ECMP) by proptest; oracle = per round, walk the ground-truth responders in probe order comparing the UDP checksum each one quoted with the previous responder's (first: with the checksum captured on the wire); non-trivial = Dublin/IPv4 run with >= 2 responders; distinct by (per-ttl expected status, #devices, packet size, pattern). synthetic: generated round sequences applied to State directly, completed probes carrying (expected, quoted) checksums from a 4-letter alphabet or none, silent / failed / skipped probes in between; oracle = the same walk, for the default flow after every round and for every registered flow over the rounds attributed to it; distinct by history",
        assumptions: vec![
            "a NAT restores the quoted source address/port on the way back (RFC 5508) but not the quoted UDP checksum",
        ],
        subs: vec![Box::new(Pbt {
            name: "nat-e2e",
            quick: 150_000,
            thorough: 2_000_000,
            strat,
            test,
            max_shrink: 3000,
        }),
        Box::new(Pbt {
            name: "synthetic",
            quick: 60_000,
            thorough: 3_000_000,
            strat: syn_strat,
            test: syn_test,
            max_shrink: 3000,
        })],
    }
}
