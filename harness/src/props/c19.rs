//! C19 NAT is flagged at the first hop that sees a rewritten datagram.

use super::{e2e, sim_case, SimCase};
use crate::engine::*;
use crate::oracle::Expected;
use crate::simnet::gen::GenOpts;
use crate::simnet::*;
use crate::{vensure, vfail};
use proptest::strategy::BoxedStrategy;
use serde_json::json;
use std::collections::BTreeMap;

fn strat() -> BoxedStrategy<SimCase> {
    use proptest::prelude::*;
    (base_strat(), 0u8..10, 1024u16..60000)
        .prop_map(|(mut c, r, port)| {
            // 70% of the cases are forced into the only cell where NAT detection applies
            if r < 7 {
                c.cfg.v6 = false;
                c.cfg.protocol = Proto::Udp;
                c.cfg.strategy = Strat::Dublin;
                c.cfg.privileged = true;
                if matches!(c.cfg.ports, Ports::None) {
                    c.cfg.ports = Ports::FixedSrc(port);
                }
            }
            c
        })
        .boxed()
}

fn base_strat() -> BoxedStrategy<SimCase> {
    sim_case(&GenOpts {
        supported_only: true,
        sending_only: true,
        nat: true,
        protocols: vec![Proto::Udp, Proto::Udp, Proto::Udp, Proto::Icmp, Proto::Tcp],
        max_hops: 20,
        long_path_pct: 0,
        rounds: (1, 5),
        ..GenOpts::default()
    })
}

fn test(c: &SimCase, obs: &mut Obs) -> CheckResult {
    let log = run_trace(&c.cfg, &c.world);
    let Some(truth) = e2e::prepare(&log, obs)? else {
        return Ok(());
    };
    let applicable = c.cfg.protocol == Proto::Udp && c.cfg.strategy == Strat::Dublin && !c.cfg.v6;
    // expected last status per ttl, carried across rounds
    let mut want: BTreeMap<u8, u8> = BTreeMap::new();
    let mut detections = 0usize;
    let mut responders = 0usize;
    for (k, r) in truth.rounds.iter().enumerate() {
        let mut prev: Option<u16> = None;
        for e in r {
            if let Expected::Complete { ttl, quoted_udp_cksum, sent_udp_cksum, .. } = e {
                if !applicable {
                    continue;
                }
                let (Some(q), Some(s)) = (quoted_udp_cksum, sent_udp_cksum) else {
                    vfail!("no-checksum", "round {k} ttl {ttl}: a Dublin/IPv4 response without a quoted UDP checksum");
                };
                responders += 1;
                let reference = prev.unwrap_or(*s);
                let detected = *q != reference;
                if detected {
                    detections += 1;
                }
                want.insert(*ttl, if detected { 2 } else { 1 });
                prev = Some(*q);
            }
        }
        let table = match &log.tables[k] {
            Ok(t) => t,
            Err(p) => vfail!(panic_sig(p), "querying the hop table after round {k} panicked: {p}"),
        };
        for (ttl, got) in &table.nat {
            if *ttl == 0 {
                continue;
            }
            let w = want.get(ttl).copied().unwrap_or(0);
            let name = |x: u8| ["not-applicable", "not-detected", "detected"][usize::from(x)];
            vensure!(
                *got == w,
                if applicable { "nat-status" } else { "nat-not-applicable" },
                "round {k} hop ttl {ttl}: last_nat_status = {}, expected {} (nats on path: {:?})",
                name(*got),
                name(w),
                c.world.paths.iter().map(|p| p.nats.iter().map(|n| (n.at, n.inclusive)).collect::<Vec<_>>()).collect::<Vec<_>>()
            );
        }
    }
    let n_nats: usize = c.world.paths.iter().map(|p| p.nats.len()).sum();
    obs.class(if applicable { "dublin-ipv4" } else { "negative-control" });
    if applicable {
        obs.class(format!("nats:{}", n_nats.min(3)));
        if detections > 0 {
            obs.class("detected");
        }
        if responders >= 2 {
            obs.class("nontrivial");
            let shape: Vec<(u8, u8)> = want.iter().map(|(a, b)| (*a, *b)).collect();
            obs.nontrivial(&(shape, n_nats, c.cfg.packet_size, c.cfg.pattern));
        }
    }
    obs.sample(json!({
        "cfg": c.cfg.cell(),
        "nats": c.world.paths.iter().map(|p| p.nats.iter().map(|n| json!({"at": n.at, "inclusive": n.inclusive})).collect::<Vec<_>>()).collect::<Vec<_>>(),
        "expected_status_by_ttl": want,
    }));
    Ok(())
}

pub fn check() -> PropertyCheck {
    PropertyCheck {
        id: "C19",
        level: "exploration",
        rule: "cases = (UDP configuration of every strategy/family plus ICMP/TCP controls, world with 0..3 address/port rewriting devices at arbitrary distances, silent and lossy hops, ECMP) by proptest; oracle = per round, walk the ground-truth responders in probe order comparing the UDP checksum each one quoted with the previous responder's (first: with the checksum captured on the wire); non-trivial = Dublin/IPv4 run with >= 2 responders; distinct by (per-ttl expected status, #devices, packet size, pattern)",
        assumptions: vec![
            "a NAT restores the quoted source address/port on the way back (RFC 5508) but not the quoted UDP checksum",
        ],
        subs: vec![Box::new(Pbt {
            name: "nat-e2e",
            quick: 150_000,
            thorough: 2_000_000,
            strat,
            test,
            max_shrink: 3000,
        })],
    }
}
