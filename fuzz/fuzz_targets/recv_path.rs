#![no_main]
//! bytes = [configuration selector][packet ...]: the packet is handed to Channel::recv_probe and
//! into a running Strategy of that configuration.  Any panic (incl. arithmetic overflow) aborts.
use libfuzzer_sys::fuzz_target;
use trippy_verif::props::c04;

trippy_verif::interpose_clock!();

fuzz_target!(|data: &[u8]| {
    if data.len() < 2 {
        return;
    }
    c04::fuzz_recv(data[0], &data[1..]);
});
