#![no_main]
//! bytes = [view selector][buffer ...]: every read accessor of the selected packet view.
use libfuzzer_sys::fuzz_target;
use trippy_verif::props::c04;

trippy_verif::interpose_clock!();

fuzz_target!(|data: &[u8]| {
    if data.is_empty() {
        return;
    }
    let ty = c04::VIEW_TYPES[usize::from(data[0]) % c04::VIEW_TYPES.len()];
    if let Err(f) = c04::touch(ty, &data[1..]) {
        panic!("{}: {}", f.sig, f.msg);
    }
});
