#![no_main]
//! The libFuzzer input is the random stream of the proptest generator of the sub-check named by
//! VERIF_FUZZ_TARGET=<ID>/<sub-check>; the sub-check's own oracle judges the generated case.
use libfuzzer_sys::fuzz_target;

trippy_verif::interpose_clock!();
trippy_verif::interpose_random!();

fuzz_target!(|data: &[u8]| {
    trippy_verif::engine::fuzz_entry(data);
});
