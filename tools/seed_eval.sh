#!/bin/bash
# usage: tools/seed_eval.sh <worktree> <name> <demo-test-filter> <ID> [<ID> ...]
# 1. confirms the seeded change in its scratch worktree (demo passes without, fails with; the
#    rest of the suite passes with), 2. applies it to /repo, runs the listed checks (quick, then
#    thorough for those that missed), reverts /repo, 3. stores it under /verif/seeded/<name>/.
set -u
WT="$1"; NAME="$2"; FILTER="$3"; shift 3
OUT=/tmp/seedout-$NAME
if [ -d "$WT/SEED_OUT" ]; then rm -rf "$OUT"; cp -r "$WT/SEED_OUT" "$OUT" || exit 2; fi
if [ ! -f "$OUT/patch.diff" ] && [ -f "/verif/seeded/$NAME/patch.diff" ]; then mkdir -p "$OUT"; cp /verif/seeded/$NAME/* "$OUT"/; fi
[ -f "$OUT/patch.diff" ] || { echo "no seed output for $NAME"; exit 2; }
cd "$WT" || exit 2
git checkout -q -- . ; git clean -fdq -e target
LOG="$OUT/confirm.log"
if [ "${SKIP_CONFIRM:-0}" = "1" ]; then echo "confirm: skipped (already confirmed)"; else
: > "$LOG"
git apply "$OUT/demo.diff" || { echo "demo.diff does not apply"; exit 2; }
cargo test --workspace --offline "$FILTER" >>"$LOG" 2>&1; rc_without=$?
git apply "$OUT/patch.diff" || { echo "patch.diff does not apply"; exit 2; }
cargo test --workspace --offline "$FILTER" >>"$LOG" 2>&1; rc_with=$?
cargo test --workspace --no-fail-fast --offline > "$OUT/suite_with.log" 2>&1
failed=$(grep -E "^test .* FAILED$" "$OUT/suite_with.log" | grep -v "$FILTER" | wc -l)
passed=$(grep -E "^test result: " "$OUT/suite_with.log" | awk '{s+=$4} END {print s}')
echo "confirm: demo without change rc=$rc_without (want 0), with change rc=$rc_with (want != 0); other failing tests with change: $failed; tests passed: $passed" | tee "$OUT/confirm.txt"
fi
cd /repo || exit 2
if ! git diff --quiet; then echo "/repo dirty"; exit 2; fi
git apply "$OUT/patch.diff" || { echo "patch does not apply to /repo"; exit 2; }
trap 'git -C /repo checkout -- .' EXIT
RES=""
for id in "$@"; do
  out=$(cd /verif && VERIF_OUT_DIR=$OUT/run ./check "$id" quick 2>&1); rc=$?
  if [ $rc -eq 1 ]; then RES="$RES $id:quick"; echo "$id quick: CAUGHT $(echo "$out" | grep -m1 'failing oracle' | cut -c1-220)";
  elif [ $rc -eq 0 ]; then
    out=$(cd /verif && VERIF_OUT_DIR=$OUT/run VERIF_SCALE=${THOROUGH_SCALE:-0.1} ./check "$id" thorough 2>&1); rc=$?
    if [ $rc -eq 1 ]; then RES="$RES $id:thorough"; echo "$id thorough(x${THOROUGH_SCALE:-0.1}): CAUGHT $(echo "$out" | grep -m1 'failing oracle' | cut -c1-220)"; else echo "$id: missed (quick and thorough x${THOROUGH_SCALE:-0.1}) rc=$rc"; fi
  else echo "$id: inconclusive rc=$rc $(echo "$out" | tail -2 | cut -c1-200)"; fi
done
mkdir -p /verif/seeded/$NAME
cp "$OUT/patch.diff" "$OUT/demo.diff" "$OUT/notes.md" /verif/seeded/$NAME/ 2>/dev/null
echo "$RES" > $OUT/caught.txt
echo "caught by:$RES"
