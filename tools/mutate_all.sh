#!/bin/bash
# usage: tools/mutate_all.sh [pattern]   - runs every sensitivity mutant (and every seeded change)
# against the check of the property it breaks; one line per mutant in sensitivity/RESULTS.txt.
# /repo must be clean and not in use by another run (the checks build from /repo's working tree).
cd /verif || exit 2
target() {
  case "$1" in
    m01*|m02*|m08*) echo C01;; m03*|m05*) echo C06;; m04*|m06*|m14*) echo C08;; m07*) echo C10;;
    m09*|m10*|m11*|m12*|m13*|m15*) echo C03;; m16*|m17*|m18*) echo C19;;
    m19*|m2[0-6]*) echo C11;; m27*|m28*|m29*|m3[0-3]*) echo C09;; m3[4-8]*) echo C07;;
    m39*|m4[0-5]*) echo C14;; m46*|m47*|m53*|m54*|m55*) echo C15;; m48*|m49*|m50*|m51*|m52*|m56*) echo C05;;
    m57*|m58*|m59*) echo C20;; m6[0-8]*) echo C16;; m69*|m7[0-5]*) echo C18;; m7[6-9]*) echo C17;;
    *) echo "";;
  esac
}
OUT=sensitivity/RESULTS.txt
: > $OUT.tmp
shopt -s nullglob
for d in sensitivity/*${1:-}*.diff; do
  id=$(target "$(basename "$d")"); [ -n "$id" ] || continue
  tools/mutate.sh "$d" "$id" 2>&1 | tee -a $OUT.tmp
done
for m in seeded/*${1:-}*/meta.json; do
  dir=$(dirname "$m"); id=$(python3 -c "import json,sys; print(json.load(open('$m'))['property'])")
  cp "$dir/patch.diff" "/tmp/seed-$(basename "$dir").diff"
  tools/mutate.sh "/tmp/seed-$(basename "$dir").diff" "$id" 2>&1 | tee -a $OUT.tmp
  rm -f "/tmp/seed-$(basename "$dir").diff"
done
if [ -z "${1:-}" ]; then mv $OUT.tmp $OUT; else OUT=$OUT.tmp; fi
echo "caught: $(grep -c CAUGHT $OUT)  missed: $(grep -c missed $OUT)  other: $(grep -vc 'CAUGHT\|missed' $OUT)"
