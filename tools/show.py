import json,glob,sys
for f in (sys.argv[1:] or glob.glob('/verif/replays/*.json')):
    d=json.load(open(f))
    c=d['case']
    print(f); print(d['sig'], '|', d['msg'][:300]); print(json.dumps(c['cfg']))
    w=c['world']
    print('paths',[len(p['hops']) for p in w['paths']], 'fw',[p['firewall'] for p in w['paths']], 'nats',[p['nats'] for p in w['paths']])
    for p in w['paths']:
        for i,h in enumerate(p['hops'][:12]): print(' ',i+1,{k:v for k,v in h.items() if k not in('dup_gap_ns',)})
    print('target',w['target'])
    print('inj',w['injections'],'faults',w['faults'],'costs',w['send_cost_ns'],w['recv_cost_ns'])
