#!/bin/bash
# usage: tools/fuzz_smoke.sh <ID>/<sub-check> [runs] [max_len]
# Runs the pbt_bridge libFuzzer target by hand against one sub-check's generator (scratch dir under /tmp).
set -u
T="$1"; RUNS="${2:-20000}"; LEN="${3:-4096}"
W=/tmp/fz-$(echo "$T" | tr '/' '-')
rm -rf "$W"; mkdir -p "$W/corpus" "$W/art" "$W/rep"
python3 - "$W" "$LEN" <<'E'
import sys, random
w, n = sys.argv[1], int(sys.argv[2])
r = random.Random(1)
for i in range(32):
    open(f"{w}/corpus/seed-{i}", "wb").write(bytes(r.getrandbits(8) for _ in range(n)))
E
cd "$W" || exit 2
VERIF_FUZZ_TARGET="$T" VERIF_DIR=/verif VERIF_FUZZ_OUT="$W/rep" timeout 900 \
  ${PBT_BRIDGE:-/verif/fuzz/target-nosan/x86_64-unknown-linux-gnu/release/pbt_bridge} corpus -runs="$RUNS" -max_len="$LEN" -len_control=0 \
  -print_final_stats=1 -artifact_prefix="$W/art/" 2>&1 | tail -14
ls "$W/art" "$W/rep" | head
