#!/bin/bash
# usage: tools/mutate.sh <patch.diff> <ID> [<ID> ...]   (env TIER=quick|thorough, default quick)
# Applies the patch to /repo's working tree, runs the given checks, and reverts.  Prints one
# line per check: CAUGHT / missed / inconclusive.
set -u
P="$(readlink -f "$1")"; shift
TIER="${TIER:-quick}"
cd /repo || exit 2
if ! git diff --quiet; then echo "/repo has uncommitted changes; refusing" >&2; exit 2; fi
if ! git apply "$P"; then echo "patch does not apply: $P" >&2; exit 2; fi
trap 'git -C /repo checkout -- . ' EXIT
for id in "$@"; do
  out=$(cd /verif && VERIF_OUT_DIR=/tmp/mutate-out ./check "$id" "$TIER" 2>&1); rc=$?
  case $rc in
    1) echo "$(basename "$P") $id: CAUGHT  $(echo "$out" | grep -m1 'failing oracle' | cut -c1-200)";;
    0) echo "$(basename "$P") $id: missed";;
    *) echo "$(basename "$P") $id: inconclusive rc=$rc $(echo "$out" | tail -3 | cut -c1-300)";;
  esac
done
rm -rf /tmp/mutate-out
