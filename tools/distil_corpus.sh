#!/bin/bash
# usage: tools/distil_corpus.sh <ID>/<sub-check> [runs per worker] [workers] [max_len] [keep]
# Runs a guided campaign on the CURRENT tree (which must be clean: a failing input ends the
# campaign), merges the resulting corpus down to a coverage-preserving subset with libFuzzer's
# -merge=1 and stores up to <keep> of its inputs (smallest first) under corpus/<ID>/<sub>/, where
# every tier of ./check replays them in-process.  Needs fuzz/target-nosan (built by any
# `./check <ID> thorough`, or: cd harness && cargo +nightly fuzz build -O -s none --fuzz-dir ../fuzz
# --target-dir ../fuzz/target-nosan pbt_bridge).
set -u
T="$1"; RUNS="${2:-20000}"; J="${3:-16}"; LEN="${4:-2048}"; KEEP="${5:-64}"
V="$(cd "$(dirname "${BASH_SOURCE[0]}")/.." && pwd)"
BIN="$V/fuzz/target-nosan/x86_64-unknown-linux-gnu/release/pbt_bridge"
[ -x "$BIN" ] || { echo "no $BIN"; exit 2; }
W=/tmp/distil-$(echo "$T" | tr '/' '-')
rm -rf "$W"; mkdir -p "$W/corpus" "$W/merged" "$W/art" "$W/rep"
python3 - "$W" "$LEN" <<'P'
import sys, random
w, n = sys.argv[1], int(sys.argv[2])
r = random.Random(20261001)
for i in range(64):
    open(f"{w}/corpus/seed-{i:03}", "wb").write(bytes(r.getrandbits(8) for _ in range(n)))
P
cd "$W" || exit 2
export VERIF_FUZZ_TARGET="$T" VERIF_DIR="$V" VERIF_FUZZ_OUT="$W/rep"
"$BIN" corpus -runs="$RUNS" -jobs="$J" -workers="$J" -max_len="$LEN" -len_control=0 -use_value_profile=1 \
  -print_final_stats=1 -artifact_prefix="$W/art/" >/dev/null 2>&1
execs=$(grep -h "number_of_executed_units" fuzz-*.log | awk '{s+=$2} END {print s+0}')
if ls "$W/art" | grep -qv '^slow-unit'; then echo "$T: campaign produced artifacts - not distilling"; ls "$W/art" "$W/rep"; exit 1; fi
"$BIN" -merge=1 -max_len="$LEN" merged corpus >merge.log 2>&1
n=$(ls merged | wc -l)
D="$V/corpus/$T"
rm -rf "$D"; mkdir -p "$D"
i=0
for f in $(ls -Sr merged | head -n "$KEEP"); do cp "merged/$f" "$D/$(printf '%03d' $i)-$f"; i=$((i+1)); done
echo "$T: $execs executions, corpus $(ls corpus | wc -l) -> merged $n -> kept $i ($(du -sk "$D" | cut -f1) KiB)"
rm -rf "$W"
