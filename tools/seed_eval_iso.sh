#!/bin/bash
# usage: tools/seed_eval_iso.sh <worktree> <name> <demo-test-filter> <ID> [<ID> ...]
# Like seed_eval.sh, but leaves /repo alone: the checks are built from a copy of the harness whose
# path dependencies point at the (patched) scratch worktree.  For use while /repo is busy.
set -u
WT="$1"; NAME="$2"; FILTER="$3"; shift 3
OUT=/tmp/seedout-$NAME
if [ -d "$WT/SEED_OUT" ]; then rm -rf "$OUT"; cp -r "$WT/SEED_OUT" "$OUT" || exit 2; fi
[ -f "$OUT/patch.diff" ] || { echo "no seed output for $NAME"; exit 2; }
cd "$WT" || exit 2
if [ "${SKIP_CONFIRM:-0}" != "1" ]; then git checkout -q -- . ; git clean -fdq -e target; fi
if [ "${SKIP_CONFIRM:-0}" != "1" ]; then
git apply "$OUT/demo.diff" || { echo "demo.diff does not apply"; exit 2; }
cargo test --workspace --offline "$FILTER" >"$OUT/confirm.log" 2>&1; rc_without=$?
git apply "$OUT/patch.diff" || { echo "patch.diff does not apply"; exit 2; }
cargo test --workspace --offline "$FILTER" >>"$OUT/confirm.log" 2>&1; rc_with=$?
cargo test --workspace --no-fail-fast --offline > "$OUT/suite_with.log" 2>&1
failed=$(grep -E "^test .* FAILED$" "$OUT/suite_with.log" | grep -v "$FILTER" | wc -l)
passed=$(grep -E "^test result: " "$OUT/suite_with.log" | awk '{s+=$4} END {print s}')
echo "confirm: demo without change rc=$rc_without (want 0), with change rc=$rc_with (want != 0); other failing tests with change: $failed; tests passed: $passed" | tee "$OUT/confirm.txt"
fi
# harness copy bound to the worktree
H=/tmp/evalh
rm -rf $H; mkdir -p $H; rsync -a --exclude target /verif/harness/ $H/
sed -i "s#/repo/crates#$WT/crates#g" $H/Cargo.toml $H/src/tui_loop.rs
export CARGO_TARGET_DIR=/tmp/evalh-target
export VERIF_NO_GUIDED=1
(cd $H && cargo build --release --offline >"$OUT/build.log" 2>&1) || { echo "harness build failed"; tail -5 "$OUT/build.log"; exit 2; }
RES=""
for id in "$@"; do
  out=$(cd /verif && VERIF_DIR=/verif VERIF_OUT_DIR=$OUT/run $CARGO_TARGET_DIR/release/vcheck "$id" quick 2>&1); rc=$?
  if [ $rc -eq 1 ]; then RES="$RES $id:quick"; echo "$id quick: CAUGHT $(echo "$out" | grep -m1 'failing oracle' | cut -c1-220)";
  elif [ $rc -eq 0 ]; then
    out=$(cd /verif && VERIF_DIR=/verif VERIF_OUT_DIR=$OUT/run VERIF_SCALE=${THOROUGH_SCALE:-0.1} $CARGO_TARGET_DIR/release/vcheck "$id" thorough 2>&1); rc=$?
    if [ $rc -eq 1 ]; then RES="$RES $id:thorough"; echo "$id thorough(x${THOROUGH_SCALE:-0.1}): CAUGHT $(echo "$out" | grep -m1 'failing oracle' | cut -c1-220)"; else echo "$id: missed (quick and thorough x${THOROUGH_SCALE:-0.1}) rc=$rc"; fi
  else echo "$id: inconclusive rc=$rc $(echo "$out" | tail -2 | cut -c1-200)"; fi
done
mkdir -p /verif/seeded/$NAME
cp "$OUT/patch.diff" "$OUT/demo.diff" "$OUT/notes.md" /verif/seeded/$NAME/ 2>/dev/null
echo "caught by:$RES"
