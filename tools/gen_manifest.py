#!/usr/bin/env python3
"""Regenerate /verif/MANIFEST.json from the table below (kept in one place so it stays valid)."""
import json, subprocess, os
V = os.path.dirname(os.path.dirname(os.path.abspath(__file__)))
props = [json.loads(l) for l in open(os.path.join(V, 'properties.jsonl'))]

# id -> (level category, technique, level text, level note, design ref)
CLAIMED = {
 'C17': ('exploration', 'stateful property-based testing of the real TuiApp and renderer on a ratatui TestBackend',
         'Generated operation sequences (all 36 bindable commands dispatched per mode as run_app does, synthetic rounds applied to 1..3 real Tracers, clears, resizes 1x1..300x100, all display modes and column sets) with one loop iteration (snapshot, clamp, order flows, draw) after every operation under catch_unwind; the selected hop / hop address / flow / trace / settings tab must exist in the displayed data. Three generators (uniform commands, navigation-heavy on many flows, settings dialog with long item runs). One recorded finding (ratatui/cassowary layout solver cycling without end on the hop table, seen with 12+ columns) is turned into a panic by a vendored cassowary with a pivot cap, keyed on its call site, tolerated inside the search and demonstrated deterministically with fixed hash seeds (getrandom interposer); any other frame that does not return within 90 s ends the run with exit 2.',
         'run_app is parsed from frontend.rs and interpreted (tui_loop.rs), commands injected at the binding level; names / AS / GeoIP come from seeded fixtures.', 'DESIGN.md 3/C17'),
 'C18': ('exploration', 'stateful property-based testing with a screen-content oracle over every drawn frame',
         'The C17 driver with every hop address carrying a seeded host name, AS record and GeoIP record: after every frame each row of the TestBackend buffer is searched for every identifying string of every responding hop at or below the privacy ttl (all flows of the displayed data) and for the source address; on large terminals showing the plain table every visible responding hop must be present; the expand / contract keys are checked against the off <-> 0 .. hop-count step model.',
         'whole-token matching; coordinates are not searched for; strings shared with a visible hop are not counted.', 'DESIGN.md 3/C18'),
 'C16': ('exploration', 'table-driven property-based testing of option layering through clap + serde + build_config; generated builder / command-line configurations run over the simulated socket',
         'Each of 45 options, 34 theme colours and 38 key bindings is independently absent / in the file / on the CLI / in both, all at once, and the effective value is compared with a table written from the sample configuration file and CLI reference (derived values and six documented cross-option rejections modelled). Every configuration Builder::build or the CLI layer accepts (boundary values of every parameter) is run for 3 simulated rounds: error values are fine, panics and hangs are violations.',
         'start_tracer\'s builder chain is mirrored; Privilege::new(true, false) stands for a privileged process on a platform that also allows unprivileged mode.', 'DESIGN.md 3/C16'),
 'C20': ('exploration', 'randomized schedule exploration with real threads and add-only yield points; digest-membership oracle over all folds of whole rounds',
         'The real tracer runs on its own thread over the simulated socket while 1..4 readers loop snapshot()/clear(); yield points inside State::update_from_round stall the writer mid-round. Every snapshot digest must equal the fold of a whole number of consecutive published rounds over an empty state, within the window implied by the publish counter read before/after the snapshot and by the clears issued.',
         'schedules are sampled, not enumerated; races needing a window outside the yield points can be missed; failing schedules are not replayed deterministically.', 'DESIGN.md 3/C20'),
 'C05': ('exploration', 'model-based property-based testing: real State vs a recomputation from the whole round history',
         'Synthetic histories (up to 3000 rounds; complete / awaited / failed / skipped probes, RTT 0..3 s incl. clock steps, first-ttl 1..254, sample limits 0..256) and rounds published by the real strategy over simulated networks are applied to State; every getter of every hop is compared with sums, min/max, two-pass variance and an explicit newest-first window; the conservation laws are asserted separately.',
         'jitter figures are recomputed by their defining recurrence; float tolerances 1e-9 / 1e-6 (stddev).', 'DESIGN.md 3/C05'),
 'C15': ('exploration', 'model-based property-based testing of flow attribution on the real State',
         'Synthetic histories with colliding paths, unknown hops, failed/skipped probes, first-ttl > 1 and max-flows 1..64: after every round dense ids, bound, monotone extension of every flow, positional agreement of the attributed flow, behaviour at a full registry; at the end every flow equals the C05 model over exactly the rounds observed to be attributed to it.',
         'attribution is observed through round_count deltas; a round is required to be attributed at a full registry only if it agrees with a registered flow on every address seen.', 'DESIGN.md 3/C15'),
 'C04': ('exploration', 'property-based testing + enumerated field-value x length grids through the real receive path and every packet view; libFuzzer campaign in the thorough tier',
         'Structure-aware corruption of genuine responses captured from simulated runs (named length/offset/type fields, truncation) delivered to Channel::recv_probe and into a running Strategy; complete grids of every length/offset field value against every truncation length for 20 configurations; every read accessor / iterator / Debug of all 19 packet views over value x length grids and random buffers. Overflow checks on, panics caught; slices must stay inside the buffer and iterators bounded.',
         'debug assertions off (as shipped); setters with oversized payloads are caller errors.', 'DESIGN.md 3/C04'),
 'C12': ('exploration', 'table-driven property-based testing: RFC field table vs. setter/getter pairs, exhaustive for arguments up to 16 bits',
         'For 79 fields a table (bit offset, width) written from the RFCs is compared with the effect of each setter on arbitrary pre-existing buffers: exactly the field bits change, to value mod 2^width, at the RFC position; getters agree on mutable and read-only views; construction succeeds iff the buffer has the header size. All values of every setter argument <= 16 bits are enumerated.',
         'TCP reserved/flags follow the RFC 793/3540 split trippy exposes.', 'DESIGN.md 3/C12'),
 'C13': ('exploration', 'differential property-based testing against an independent RFC 1071 implementation; exhaustive Paris sequence sweep through the real Channel',
         'Random / carry-maximising data of every length 0..1024 and address pairs: codec checksum == reference with the field taken as zero, and the datagram with it inserted sums to 0xFFFF; all 65 536 Paris sequences x families x port pairs dispatched through Channel::send_probe, checksum field == sequence and datagram verifies.',
         'inputs are at least one transport header long.', 'DESIGN.md 3/C13'),
 'C14': ('exploration', 'round-trip property-based testing with an independent RFC 4884/4950 encoder, corruption testing, end-to-end comparison in simulated runs',
         'Messages built by the independent encoder (all length-attribute values, compliant / legacy, 0..4 objects, MPLS stacks) must be split and converted back exactly; corrupted messages must keep slices inside the message, disjoint, and iterators bounded; in simulated runs ProbeComplete.extensions equals what routers attached, in both parse modes.',
         'classic messages quoting > 128 octets with length 0 are ambiguous by RFC 4884 5.5: containment only.', 'DESIGN.md 3/C14'),
 'C02': ('exploration', 'property-based testing + enumerated sequence sweep over simulated networks, ground-truth oracle',
         'Generated search over supported cells, packet sizes, tos, patterns and quotation shapes (RFC minimum .. whole datagram, RFC 4884 compliant / legacy extension, remarked TOS, quoted TTL, IP options) judged by the ground truth; plus a sweep in which every sequence number the state machine issues (thorough: the whole issuable range per cell, ~10.6 M probes) must be matched. Negative half: quotations of datagrams never sent must complete nothing.',
         'Paris/Dublin in unprivileged mode excluded as documented-unsupported; NAT checksum rewriting excluded for Paris.', 'DESIGN.md 3/C02'),
 'C03': ('exploration', 'property-based testing with adversarial packet injection and two-tracer decomposition, ground-truth + bookkeeping-model oracles',
         'Generated search: duplicates, late, foreign-trace-id, other destination/port/protocol, missing marker, never-sent (inside and outside the window) and before-round packets interleaved with the real send/receive loop; a second tracer run alone has its traffic replayed into the first. Outcomes, schedule, timing (both directions) and path length are judged against ground truth fed with genuine responses only.',
         'forged packets naming a sequence on the wire in the current round, and responses >= 2 rounds late that alias, are indistinguishable by design and excluded (counted).', 'DESIGN.md 3/C03'),
 'C07': ('exploration', 'enumerated walk of the real TracerState over (round start, round size) + stateful PBT + simulated TCP address-in-use storms',
         'The wrap regions of the (round-start sequence, round size) graph are enumerated completely in the thorough tier for 9 boundary initial sequences x 3 regimes through the real next_probe/reissue_probe/advance_round/in_round/complete_probe; random round-size histories and end-to-end TCP storms (capacity error instead of out-of-bounds) complete it. One recorded finding (TCP, initial sequence > 63999, > 254 sequences per round).',
         'the in_round gate of recv_response is mirrored by the walk; round starts far from both ends are covered by random histories only.', 'DESIGN.md 3/C07'),
 'C09': ('fault_enumeration', 'fault-script enumeration (all single faults and pairs for small configurations) + random fault scripts over simulated runs',
         'Socket faults (stage, n-th call, errno) are injected into the simulated Socket: every single fault and pair at the first calls of every stage for each of the 36 supported cells (max-ttl 3, 2 rounds), and 0..4 random faults over generated runs. Round count/numbering, Ok vs the injected error, error visibility in snapshots, Failed/Skipped semantics and no activity after a fatal error are checked.',
         'the transient-errno table is tabulated from the ErrorMapper call sites; malformed inbound packets belong to C04.', 'DESIGN.md 3/C09'),
 'C11': ('exploration', 'property-based testing: independent RFC decoder over every datagram captured at the simulated send socket',
         'Every probe handed to the send socket in generated runs and in the C02 sequence sweep is decoded with an independently written codec and compared with configuration and with the probe the tracer published for it (ttl, tos, DF, addresses, lengths, ICMP/UDP checksums, sequence field per strategy, trace id, size, pattern); out-of-range packet sizes must be refused with an error before anything is sent.',
         'IPv4 header checksum / ICMP IP id are kernel-filled and not checked; non-raw headers are synthesised from the socket options.', 'DESIGN.md 3/C11'),
 'C19': ('exploration', 'property-based testing over simulated paths with 0..3 rewriting devices, ground-truth checksum oracle',
         'Generated search: NAT devices (incl. twice-NAT restoring the checksum) at arbitrary distances, silent/lossy hops, all strategies/families as controls; after every round each hop\'s last NAT status is compared with the rule stated in the property evaluated on the checksums the simulator actually quoted.',
         'a NAT restores quoted address/port but not the quoted UDP checksum.', 'DESIGN.md 3/C19'),
 'C01': ('exploration', 'property-based testing: generated configurations x simulated networks, ground-truth event-log oracle',
         'Generated search: the real Builder/Channel/Strategy/State run over a simulated Socket on a virtual clock; every published probe status is compared with the ground truth the simulator recorded (what was delivered, from whom, when it was read). Holds on everything generated; no proof of absence.',
         'SimSocket replaces the platform socket layer; verif_run_with_socket mirrors TracerInner::run_internal (6 statements); ground truth decoded with an independent wire codec.', 'DESIGN.md 3/C01'),
 'C06': ('exploration', 'property-based testing: invariants over the ordered send/receive/publish log of simulated runs',
         'Generated search over first/max ttl, max-inflight, path lengths and arrival orders; each send is checked against TTL order, max-ttl, target-answered, established target distance and the in-flight window using a bookkeeping model fed only with genuine responses.',
         'window clause asserted as the statement gives it (<= max-inflight); bookkeeping model written from the doc comments of complete_probe.', 'DESIGN.md 3/C06'),
 'C08': ('exploration', 'property-based testing on a virtual clock with threshold-aligned arrivals',
         'Generated search: all durations are small multiples of one time unit so arrivals land on, just before and just after min/max/grace/read-timeout thresholds; every publish instant is checked against the policy and the completion reason against the ground truth.',
         'virtual time advances only in simulated socket calls; zero read timeout spins in max-round/200 steps.', 'DESIGN.md 3/C08'),
 'C10': ('exploration', 'property-based testing: hop table read through public accessors after every simulated round (with and without socket faults) and after every round of generated synthetic histories',
         'Generated search: after every published round hops()/target_hop()/is_target()/is_in_round()/round_count() for every flow are compared with the TTL run implied by the ground truth; true distance asserted on stable single paths.',
         'SimSocket replaces the platform socket layer.', 'DESIGN.md 3/C10'),
}

checks = []
for p in props:
    i = p['id']
    if i not in CLAIMED: continue
    cat, tech, text, note, ref = CLAIMED[i]
    if i != 'C20':
        tech += '; thorough tier adds a coverage-guided libFuzzer campaign whose input is the random stream of the same generators, judged by the same oracle'
    checks.append({
        'property_id': i,
        'quick_cmd': f'./check {i} quick',
        'thorough_cmd': f'./check {i} thorough',
        'evidence_file': f'/verif/evidence/{i}.json',
        'replay_cmd_template': f'./check {i} --replay {{path}}',
        'engine': 'harness',
        'level_claimed': {'category': cat, 'text': text, 'design_ref': ref},
        'level_note': note,
        'technique': tech,
    })
hook_commits = subprocess.run(['git','-C','/repo','log','--format=%h %s','--grep=^verif-hooks'],capture_output=True,text=True).stdout.strip().splitlines()
m = {
 'version': 1,
 'setup_cmd': './check --build',
 'hooks': {
   'guard': 'cargo feature `verif-hooks` (trippy-core, trippy-tui, trippy-dns); default off',
   'enable': 'harness/Cargo.toml depends on /repo/crates/* by path with features = ["verif-hooks"]; ./check rebuilds from the working tree',
   'baseline_off_cmd': 'cd /repo && cargo test --workspace --no-fail-fast --offline',
   'source_commits': hook_commits,
   'add_only': True,
 },
 'engines': [
   {'name': 'harness', 'path': '/verif/harness', 'serves_properties': sorted(CLAIMED), 'kind_free_text': 'cargo crate: proptest runners (16 shards, fixed seeds), cargo-fuzz bridge (libFuzzer input = generator random stream), simnet (simulated Socket + world + virtual clock), independent wire codec, per-property oracles, evidence writer'},
   {'name': 'fuzz', 'path': '/verif/fuzz', 'serves_properties': sorted(c for c in CLAIMED if c != 'C20'), 'kind_free_text': 'cargo-fuzz crate (libFuzzer): pbt_bridge (input = random stream of a sub-check generator, the sub-check oracle in-target; thorough tier of every property but C20), recv_path and codec_views (C04 thorough tier); corpus/<ID>/<sub>/ holds distilled inputs replayed in every tier'},
 ],
 'checks': checks,
 'notes': 'exit 0 = held on everything explored, 1 = VIOLATION line, 2 = inconclusive (build failure / watchdog). VERIF_SEED selects the PRNG stream; VERIF_SCALE scales case counts.',
 'not_applicable': [{'property_id': p['id'], 'reason': 'not claimed'} for p in props if p['id'] not in CLAIMED],
}
json.dump(m, open(os.path.join(V,'MANIFEST.json'),'w'), indent=1)
print('claimed', sorted(CLAIMED))
