#!/usr/bin/env python3
"""Regenerate /verif/MANIFEST.json from the table below (kept in one place so it stays valid)."""
import json, subprocess, os
V = os.path.dirname(os.path.dirname(os.path.abspath(__file__)))
props = [json.loads(l) for l in open(os.path.join(V, 'properties.jsonl'))]

# id -> (level category, technique, level text, level note, design ref)
CLAIMED = {
 'C01': ('exploration', 'property-based testing: generated configurations x simulated networks, ground-truth event-log oracle',
         'Generated search: the real Builder/Channel/Strategy/State run over a simulated Socket on a virtual clock; every published probe status is compared with the ground truth the simulator recorded (what was delivered, from whom, when it was read). Holds on everything generated; no proof of absence.',
         'SimSocket replaces the platform socket layer; verif_run_with_socket mirrors TracerInner::run_internal (6 statements); ground truth decoded with an independent wire codec.', 'DESIGN.md 3/C01'),
 'C06': ('exploration', 'property-based testing: invariants over the ordered send/receive/publish log of simulated runs',
         'Generated search over first/max ttl, max-inflight, path lengths and arrival orders; each send is checked against TTL order, max-ttl, target-answered, established target distance and the in-flight window using a bookkeeping model fed only with genuine responses.',
         'window clause asserted as the statement gives it (<= max-inflight); bookkeeping model written from the doc comments of complete_probe.', 'DESIGN.md 3/C06'),
 'C08': ('exploration', 'property-based testing on a virtual clock with threshold-aligned arrivals',
         'Generated search: all durations are small multiples of one time unit so arrivals land on, just before and just after min/max/grace/read-timeout thresholds; every publish instant is checked against the policy and the completion reason against the ground truth.',
         'virtual time advances only in simulated socket calls; zero read timeout spins in max-round/200 steps.', 'DESIGN.md 3/C08'),
 'C10': ('exploration', 'property-based testing: hop table read through public accessors after every simulated round',
         'Generated search: after every published round hops()/target_hop()/is_target()/is_in_round()/round_count() for every flow are compared with the TTL run implied by the ground truth; true distance asserted on stable single paths.',
         'SimSocket replaces the platform socket layer.', 'DESIGN.md 3/C10'),
}

checks = []
for p in props:
    i = p['id']
    if i not in CLAIMED: continue
    cat, tech, text, note, ref = CLAIMED[i]
    checks.append({
        'property_id': i,
        'quick_cmd': f'./check {i} quick',
        'thorough_cmd': f'./check {i} thorough',
        'evidence_file': f'/verif/evidence/{i}.json',
        'replay_cmd_template': f'./check {i} --replay {{path}}',
        'engine': 'harness',
        'level_claimed': {'category': cat, 'text': text, 'design_ref': ref},
        'level_note': note,
        'technique': tech,
    })
hook_commits = subprocess.run(['git','-C','/repo','log','--format=%h %s','--grep=^verif-hooks'],capture_output=True,text=True).stdout.strip().splitlines()
m = {
 'version': 1,
 'setup_cmd': './check --build',
 'hooks': {
   'guard': 'cargo feature `verif-hooks` (trippy-core, trippy-tui, trippy-dns); default off',
   'enable': 'harness/Cargo.toml depends on /repo/crates/* by path with features = ["verif-hooks"]; ./check rebuilds from the working tree',
   'baseline_off_cmd': 'cd /repo && cargo test --workspace --no-fail-fast --offline',
   'source_commits': hook_commits,
   'add_only': True,
 },
 'engines': [
   {'name': 'harness', 'path': '/verif/harness', 'serves_properties': sorted(CLAIMED), 'kind_free_text': 'cargo crate: proptest runners (16 shards, fixed seeds), simnet (simulated Socket + world + virtual clock), independent wire codec, per-property oracles, evidence writer'},
 ],
 'checks': checks,
 'notes': 'exit 0 = held on everything explored, 1 = VIOLATION line, 2 = inconclusive (build failure / watchdog). VERIF_SEED selects the PRNG stream; VERIF_SCALE scales case counts.',
 'not_applicable': [{'property_id': p['id'], 'reason': 'check not built yet (work in progress; see DESIGN.md section 3)'} for p in props if p['id'] not in CLAIMED],
}
json.dump(m, open(os.path.join(V,'MANIFEST.json'),'w'), indent=1)
print('claimed', sorted(CLAIMED))
